"""Checks served by the history engine (harness/engine.cpp): run specifications per property and tier."""
import json
import os
import time

from . import common as C

ALL_LISTS = ["P1", "P2", "P3", "P4", "P5", "P6", "P7", "P8", "P9", "P10", "P11", "P12", "P13", "P14", "P15", "P16", "F1", "F2", "F3", "F4", "F5", "F6", "F7", "F8", "F9", "F10", "F11", "F12", "F13", "V1", "V2", "V3", "V4", "V5", "V6", "V7",
             "V8", "V9", "V10", "V11", "V12", "V13", "V14", "V15", "V16", "M1", "M2", "M3", "M4"]
TRACKED = ["P3", "P4", "P5", "P8", "P12", "F11", "F3", "F4", "F5", "F6", "F9", "V3", "V4", "V7", "V9", "V10", "V12", "V16", "M2", "M3"]
# lists of trivial value types for the "never clobbered alive" clause of C06 (observable through the values only)
C06_TRIVIAL = ["P1", "F1", "V1", "V2", "V5", "M1"]
ALIGNED = ["P2", "P6", "P10", "P14", "P15", "F2", "F7", "F10", "V1", "V3", "V5", "V6", "V7", "V8", "V9", "V13", "V15", "V16", "M1", "M4"]
VARYING = ["V1", "V2", "V3", "V4", "V5", "V6", "V7", "V8", "V9", "V13", "V14", "V15", "V16", "M1", "M2", "M3", "M4"]
TRAIT_KINDS = ["T000", "T001", "T010", "T011", "T100", "T101", "T110", "T111"]


def R(lst, alloc="AE", mode="hist", nmax=3, cmax=2, bmax=4, depth=6, junk=0, base=0, arena1=0, faults=0, fixed=None,
      max_states=400000, cscale=1, fault_ops=0, wide=0):
    return dict(list=lst, alloc=alloc, mode=mode, nmax=nmax, cmax=cmax, bmax=bmax, depth=depth, junk=junk, base=base,
                arena1=arena1, faults=faults, fixed=fixed, max_states=max_states, cscale=cscale, fault_ops=fault_ops, wide=wide)


def big_runs(lists, tier, mode="hist", depth=5, **kw):
    """the same alphabets with larger objects counts: spans of 4/8 objects (16..64 bytes), fixed sizes 8"""
    return [R(l, "AE", mode, depth=depth, junk=1, cscale=4, fixed="8", **kw) for l in lists]


def wide_runs(lists, tier, mode="hist", depth=4, nmax=17, alloc="AE", **kw):
    """vectors of 16 and 17 elements (macro operation fill), erase at selected positions, span lengths 0..2"""
    return [R(l, alloc, mode, nmax=nmax, cmax=2, bmax=40, depth=depth, junk=1, wide=1, fixed="2", **kw) for l in lists]


def long_run_proxy_runs(tier):
    """reference assignment / swap / permuting algorithms over elements whose trivially copyable runs are longer than
    256 bytes (and not a multiple of 256), in vectors filled exactly to their capacity and payload budget"""
    q = tier == "quick"
    runs = [R("F1", "AE", "proxy", nmax=2, cmax=1, bmax=2, depth=2, junk=1, fixed="127"),
            R("F2", "AE", "proxy", nmax=2, cmax=1, bmax=2, depth=2, junk=1, fixed="100"),
            R("V1", "AE", "proxy", nmax=2, cmax=1, bmax=2, depth=2, junk=1, cscale=70),
            R("M1", "AE", "proxy", nmax=2, cmax=1, bmax=2, depth=2, junk=1, fixed="100", cscale=70)]
    if not q:
        runs += [R("F5", "AE", "proxy", nmax=3, cmax=1, bmax=3, depth=3, junk=1, fixed="127"),
                 R("V2", "AE", "proxy", nmax=3, cmax=1, bmax=3, depth=3, junk=1, cscale=127),
                 R("V5", "AE", "proxy", nmax=2, cmax=1, bmax=2, depth=2, junk=1, cscale=40),
                 R("F10", "AE", "proxy", nmax=2, cmax=1, bmax=2, depth=2, junk=1, fixed="9")]
    return runs


def hist_runs(lists, tier, allocs=("AE",), mode="hist", **kw):
    runs = []
    for l in lists:
        for a in allocs:
            if tier == "quick":
                for junk in (0, 1):
                    runs.append(R(l, a, mode, junk=junk, **kw))
            else:
                for junk, base in ((0, 0), (1, 0), (1, 1)):
                    runs.append(R(l, a, mode, junk=junk, base=base, **kw))
    return runs


def pair_runs(lists, allocs, tier, depth, nmax=2, **kw):
    runs = []
    for l in lists:
        for a in allocs:
            arenas = (0,) if a == "AE" else (0, 1)
            for ar in arenas:
                runs.append(R(l, a, "pair", nmax=nmax, cmax=1, bmax=2, depth=depth, junk=1, arena1=ar, fixed="1", **kw))
    return runs


def elem_runs(lists, allocs, tier, depth, **kw):
    runs = []
    for l in lists:
        for a in allocs:
            arenas = (0,) if a == "AE" else (0, 1)
            for ar in arenas:
                runs.append(R(l, a, "elem", nmax=3, cmax=3, bmax=6, depth=depth, junk=1, arena1=ar, fixed="2", **kw))
    return runs


def spec(prop, tier):
    q = tier == "quick"
    if prop == "C01":
        if q:
            primary = ["P1", "P3", "F1", "F3", "V1", "V3", "V4", "M1"]
            # (V14 has three spans: 27 emplace_back variants per state with span lengths 0..2 - explored with lengths 0..1)
            return hist_runs(primary, tier, depth=8) + hist_runs([l for l in ALL_LISTS if l not in primary and l != "V14"], tier, depth=6) + \
                hist_runs(["V14"], tier, depth=6, cmax=1) + \
                big_runs(["F1", "F3", "V1", "V2", "V3", "V5", "M1", "M2"], tier, depth=6) + \
                wide_runs(["P1", "F1", "F3", "V1", "V2", "V3", "V5", "M1", "M2", "M4"], tier, depth=5) + wide_runs(["V14"], tier, depth=4)
        return hist_runs(ALL_LISTS, tier, allocs=("AE", "NP"), nmax=4, cmax=3, bmax=6, depth=7) + \
            wide_runs(ALL_LISTS, tier, depth=6) + wide_runs(["F1", "V1", "V3", "M1"], tier, depth=5, nmax=33)
    if prop == "C16":
        if q:
            primary = ["P1", "F3", "V1", "V3", "M1"]
            return hist_runs(primary, tier, depth=7) + \
                [R(l, "AE", "hist", depth=5, junk=1) for l in ALL_LISTS if l not in primary] + \
                big_runs(["F3", "V1", "V3", "M1"], tier, depth=5) + \
                pair_runs(["F3", "V1", "V3"], ["AE", "PP"], tier, 5) + pair_runs(["P3", "F2", "V5", "M2"], ["NP"], tier, 4) + \
                pair_runs(["F3", "V1", "V3"], ["T001", "T101", "T010"], tier, 4) + \
                wide_runs(["F3", "V1", "V3", "M1"], tier, depth=5)  # (trait kinds: swap/move traits that disagree with each other)
        return hist_runs(ALL_LISTS, tier, allocs=("AE", "NP"), nmax=4, cmax=3, bmax=6, depth=6) + \
            pair_runs(ALL_LISTS, ["AE", "NP", "PP"], tier, 5) + pair_runs(["F1", "F3", "V1", "V3", "M2"], TRAIT_KINDS, tier, 5)
    if prop in ("C02", "C03", "C04", "C05"):
        lists = ALL_LISTS if prop != "C03" else ALIGNED
        if q:
            pick = {"C02": ["P2", "F2", "V1", "V2", "V5", "V6", "M1", "M2"], "C03": ["P2", "F2", "V1", "V5", "V6", "V7", "M1"],
                    "C04": ["P3", "F2", "F5", "V2", "V5", "V6", "M1", "M2"], "C05": ["P2", "F2", "V1", "V5", "V6", "M1"]}[prop]
            runs = hist_runs(pick, tier, depth=6) + [R(l, "AE", "hist", depth=5, junk=1) for l in lists if l not in pick] + \
                big_runs([l for l in ("F2", "V1", "V2", "V5", "V8", "M1") if l in lists], tier, depth=5)
            runs += wide_runs([l for l in ("F2", "V1", "V2", "V5", "V8", "M1", "M4", "V13") if l in lists], tier, depth=4)
            if prop == "C03":
                runs += pair_runs([l for l in pick if l in ("F2", "V1", "V5", "M1")], ["NP"], tier, 4)
            if prop == "C05":
                # footprint clause: histories like "move the contents away, then copy-assign a small vector into the
                # moved-from one" need five operations
                runs += pair_runs(["F1", "F2", "V1", "V5", "M1"], ["AE", "NP"], tier, 5)
            if prop == "C04":
                # fixed sizes / span counts after copy, move, swap between vectors with different fixed sizes; elements
                runs += pair_runs(["F1", "F3", "F5", "M1", "M2"], ["AE", "NP"], tier, 4) + elem_runs(["F3", "M2", "V3"], ["AE"], tier, 2)
                # elements of equal byte size but different span lengths (two spans, or padding behind a span)
                runs += elem_runs(["V5", "V14", "V15"], ["AE"], tier, 3)
            if prop == "C02":
                # copy / move / assignment between vectors whose blocks differ in size (budgets, fixed sizes, arenas)
                runs += pair_runs(["F1", "F3", "V1", "V3", "M1", "M2"], ["NP", "PP"], tier, 4)
                # reference assignment and swap over long elements in exactly filled vectors
                runs += long_run_proxy_runs(tier)
            if prop == "C03":
                runs += elem_runs(["V5", "M1"], ["AE"], tier, 3)
            return runs
        runs = hist_runs(lists, tier, allocs=("AE",), nmax=4, cmax=3, bmax=6, depth=5)
        runs += wide_runs(lists, tier, depth=5)
        if prop == "C02":
            runs += long_run_proxy_runs(tier)
        runs += pair_runs(lists, ["NP"], tier, 4)
        runs += elem_runs(lists, ["NP"], tier, 3)
        return runs
    if prop == "C06":
        if q:
            primary = ["P3", "F3", "V3", "V4", "M2"]
            return hist_runs(primary, tier, depth=7) + [R(l, "AE", "hist", depth=6, junk=1) for l in TRACKED if l not in primary] + \
                [R(l, "AE", "hist", depth=6, junk=1) for l in C06_TRIVIAL] + \
                wide_runs(["F3", "F6", "V3", "V10", "M2", "V1"], tier, depth=5) + \
                big_runs(["F3", "V3", "V9", "M2"], tier, depth=5) + \
                pair_runs(["F3", "V3"], ["AE", "NP"], tier, 5) + pair_runs(["P3", "P5", "F4", "F6", "V7", "V10", "M2", "M3"], ["NP"], tier, 4) + \
                elem_runs(["F3", "V3"], ["NP"], tier, 3) + elem_runs(["P5", "F4", "F6", "V10", "M2", "V7"], ["NP"], tier, 2) + elem_runs(["V16", "V9"], ["AE"], tier, 3) + \
                [dict(r, faults=1) for r in pair_runs(["P3", "F3", "V3"], ["NP", "PP"], tier, 4)]  # the same objects when an allocation fails midway
        return hist_runs(TRACKED + C06_TRIVIAL, tier, allocs=("AE",), nmax=4, cmax=3, bmax=6, depth=6) + \
            pair_runs(TRACKED + C06_TRIVIAL, ["AE", "NP", "PP"], tier, 5) + elem_runs(TRACKED, ["AE", "NP", "PP"], tier, 3)
    if prop == "C07":
        if q:
            return pair_runs(["F1", "F3", "V1", "V3"], ["AE", "NP", "PP"], tier, 5) + pair_runs(["F3", "V1", "V3"], ["NPS"], tier, 4) + \
                pair_runs(["P1", "F2", "V2", "V5", "M1", "M2"], ["NP", "PP"], tier, 4) + \
                elem_runs(["F3", "V3"], ["NP", "PP"], tier, 3) + elem_runs(["F1", "V1", "M2"], ["NP", "PP"], tier, 2)
        return pair_runs(ALL_LISTS, ["AE", "NP", "PP"], tier, 5) + elem_runs(ALL_LISTS, ["AE", "NP", "PP"], tier, 3) + \
            pair_runs(["F1", "F3", "V1", "V3", "M2"], ["NPS", "T100", "T010", "T001"], tier, 4)
    if prop == "C08":
        if q:
            return pair_runs(["F3", "V3"], ["T000", "T111", "T010", "T100", "T001", "NPS"], tier, 5) + \
                elem_runs(["F3", "V3"], ["T111", "T010", "T100"], tier, 3) + \
                elem_runs(["V2", "V4"], ["T100", "T101", "T011"], tier, 3) + \
                [r for r in elem_runs(["F3", "V3"], ["T000"], tier, 4) if r["arena1"] == 1] + \
                [r for r in elem_runs(["F3", "V3"], ["T000"], tier, 3) if r["arena1"] == 0]
        return pair_runs(["F1", "F3", "V1", "V3", "M2"], TRAIT_KINDS + ["AE", "NPS"], tier, 4) + \
            elem_runs(["F1", "F3", "V1", "V2", "V3", "V4", "M2"], TRAIT_KINDS + ["AE", "NPS"], tier, 3)
    if prop == "C09":
        if q:
            return pair_runs(["P1", "F1", "F3", "V1", "V3"], ["AE", "NP"], tier, 5) + \
                pair_runs(["P3", "F2", "F4", "V2", "V5", "V7", "M1", "M2", "P8", "P9", "F9", "V12"], ["AE", "NP"], tier, 4) + \
                pair_runs(["F1", "F3", "V1", "V3"], ["PP"], tier, 4) + pair_runs(["F3", "V1"], ["T001", "T101"], tier, 4) + \
                [r for r in pair_runs(["F1", "V1"], ["NP"], tier, 6) if r["arena1"] == 1] + \
                wide_runs(["F3", "V1", "V3"], tier, mode="pair", depth=4, alloc="NP", arena1=1) + \
                wide_runs(["F3", "V1", "V3"], tier, mode="pair", depth=4)
        return pair_runs(ALL_LISTS, ["AE", "NP", "PP"], tier, 5, nmax=3)
    if prop == "C10":
        if q:
            return hist_runs(["F1", "V1", "V3", "M1"], tier, mode="c10", depth=4) + \
                hist_runs(["P1", "F3", "V2", "V5", "V7", "M2"], tier, mode="c10", depth=3) + \
                big_runs(["F1", "V1", "V3", "M1"], tier, mode="c10", depth=3) + \
                [R(l, "AE", "c10", depth=3, junk=1, fault_ops=2) for l in ("F1", "F3", "V1", "V3")] + \
                pair_runs(["F1", "V1", "M1", "M2"], ["AE"], tier, 5) + \
                [r for r in pair_runs(["M1", "M2"], ["NP"], tier, 5) if r["arena1"] == 1]  # (fail(k): a reserve that fails, then goes on; two-vector runs: reserve on copies and assignment targets)
        return hist_runs(ALL_LISTS, tier, allocs=("AE", "NP"), mode="c10", nmax=4, cmax=3, bmax=6, depth=4) + \
            [R(l, "AE", "c10", depth=4, junk=1, fault_ops=2) for l in ("P1", "F1", "F3", "V1", "V3", "V5", "M1", "M2")] + \
            pair_runs(["F1", "F3", "V1", "V3", "V5", "M1", "M2", "M4"], ["AE", "NP"], tier, 5, nmax=3)
    if prop == "C11":
        pl = ["P1", "P3", "P4", "P14", "P15", "P16", "F1", "F3", "F4", "F5", "F13", "V1", "V3", "M2"]
        runs = [R(l, "AE", "proxy", nmax=3 if q else 4, cmax=1, bmax=4, depth=3 if q else 4, junk=1, fixed="2") for l in pl]
        # long runs of trivially assignable/swappable fields: byte extents 8, 16, 32, 64 (and 15, 33 for F5's byte spans)
        # hit the block sizes a byte-swap or memmove implementation may special-case
        for fixed in ("6", "14", "30") + (() if q else ("7", "15", "31", "62")):
            for l in ("F1", "F3", "F5"):
                runs.append(R(l, "AE", "proxy", nmax=2, cmax=1, bmax=4, depth=2 if q else 3, junk=1, fixed=fixed))
        runs += long_run_proxy_runs(tier)
        # iterator objects that outlive structural changes of their vector (erase, reserve, copy/move assignment from a
        # vector with other fixed sizes, swap) and are assigned a new position afterwards
        runs += pair_runs(["F1", "F3", "V1", "V3", "M2"] if q else ["P1", "F1", "F3", "F5", "V1", "V3", "V5", "M1", "M2"], ["AE", "NP"], tier,
                          4 if q else 5)
        runs += [R(l, "AE", "hist", depth=4 if q else 5, junk=1) for l in ("F1", "F3", "V1", "V3", "M2")]
        return runs
    if prop == "C12":
        if q:
            return elem_runs(["F3", "V1", "V3"], ["AE"], tier, 3) + \
                [r for r in elem_runs(["F3", "V1", "V3"], ["NP"], tier, 4) if r["arena1"] == 1] + \
                [r for r in elem_runs(["F3", "V1", "V3"], ["NP"], tier, 3) if r["arena1"] == 0] + \
                elem_runs(["F1", "F4", "V5", "M1", "M2", "M3"], ["AE", "NP"], tier, 3) + \
                elem_runs(["V1", "V3", "F3"], ["PP", "T100", "T010"], tier, 3) + elem_runs(["P16", "F13"], ["AE"], tier, 3) + elem_runs(["V14", "V15"], ["AE"], tier, 3) + elem_runs(["P12", "F11", "F6", "P5"], ["AE", "NP"], tier, 3)
        return elem_runs(["F1", "F3", "F4", "V1", "V3", "V5", "M2", "M3"], ["AE", "NP", "PP", "T100", "T010"], tier, 4) + \
            elem_runs(["P5", "P12", "F6", "F11", "V10", "V14", "V15", "V16", "P8", "F9"], ["AE", "NP"], tier, 3)
    if prop == "C17":
        lists = ["F1", "F3", "V1", "V3"] if q else ["F1", "F3", "F4", "V1", "V3", "V5", "M2", "M3"]
        allocs = ["AE", "NP", "PP"]
        runs = []
        # element histories need depth 3 (two constructions and an assignment between elements of different size)
        for r in pair_runs(lists, allocs, tier, 4 if q else 5) + elem_runs(lists, allocs, tier, 3 if q else 4) + \
                pair_runs(["F1", "V1"], ["T100", "T010"] if q else ["T100", "T010", "T001", "T110"], tier, 4):
            r["faults"] = 1
            runs.append(r)
        for l in lists:
            runs.append(R(l, "AE", "hist", nmax=2, cmax=1, bmax=2, depth=3, junk=1, faults=1))
        # the environment's move fail(k) in the alphabet: exploration goes on after a failed reserve / copy construction /
        # construction, which promise to leave everything unchanged (a damaged vector may only show at the next emplace_back)
        for l in (["F1", "F3", "V1", "V3", "M2"] if q else ["P1", "F1", "F3", "V1", "V2", "V3", "V5", "M1", "M2"]):
            runs.append(R(l, "AE", "hist", nmax=2, cmax=2, bmax=4, depth=5 if q else 6, junk=1, fault_ops=2))
            for ar in (0, 1):
                runs.append(R(l, "NP", "pair", nmax=2, cmax=1, bmax=2, depth=4 if q else 5, junk=1, arena1=ar, fixed="1", fault_ops=2))
        return runs
    if prop == "C18":
        # two-vector histories: an empty / default-constructed vector as source or target of copy, move, assignment and
        # swap, with equal and unequal allocator instances
        return hist_runs(ALL_LISTS, tier, mode="c18", nmax=2, cmax=1, bmax=2, depth=5 if q else 7) + \
            pair_runs(["P1", "F1", "F3", "V1", "V3", "M2"] if q else ALL_LISTS, ["NP", "AE"] if q else ["NP", "AE", "PP"], tier, 3 if q else 4)
    raise KeyError(prop)


LEVEL = {p: "model_checking" for p in ["C01", "C02", "C03", "C04", "C05", "C06", "C07", "C08", "C09", "C10", "C11", "C12",
                                        "C16", "C18"]}
LEVEL["C17"] = "fault_enumeration"


def binary_jobs(runs):
    seen = {}
    for r in runs:
        name = "eng_%s_%s" % (r["list"], r["alloc"])
        seen[name] = ("engine.cpp", ["CFG_LIST=%s" % r["list"], "CFG_ALLOC=%s" % r["alloc"]], name)
    return list(seen.values())


def engine_argv(binpath, r, prop, outfile, workers, deadline):
    argv = [binpath, "--mode", r["mode"], "--prop", prop, "--nmax", str(r["nmax"]), "--cmax", str(r["cmax"]),
            "--bmax", str(r["bmax"]), "--depth", str(r["depth"]), "--junk", str(r["junk"]), "--base", str(r["base"]),
            "--arena1", str(r["arena1"]), "--workers", str(workers), "--deadline", str(deadline), "--out", outfile,
            "--tmpdir", os.path.join(C.OUT, "tmp"), "--max-states", str(r["max_states"])]
    tags = sorted(set(k["sig"].rsplit("@", 1)[1] for k in C.load_known()[0] if "@" in k["sig"] and "*" not in k["sig"].rsplit("@", 1)[1]))
    if tags:
        argv += ["--prune-tags", ",".join(tags)]
    if r["faults"]:
        argv += ["--faults", str(r["faults"])]
    if r["fixed"]:
        argv += ["--fixed", r["fixed"]]
    if r.get("fault_ops", 0):
        argv += ["--fault-ops", str(r["fault_ops"])]
    if r.get("wide", 0):
        argv += ["--wide", "1"]
    if r.get("cscale", 1) != 1:
        argv += ["--cscale", str(r["cscale"])]
    return argv


def run_key(r):
    return "%s_%s_%s_j%d_b%d_a%d_f%d%s" % (r["list"], r["alloc"], r["mode"], r["junk"], r["base"], r["arena1"], r["faults"],
                                            (("_x" + r["fixed"].replace(",", ".")) if r["fixed"] else "") +
                                            (("_s%d" % r["cscale"]) if r.get("cscale", 1) != 1 else "") +
                                            (("_o%d" % r["fault_ops"]) if r.get("fault_ops", 0) else "") +
                                            (("_w%d" % r["nmax"]) if r.get("wide", 0) else ""))


def collect(prop, tier, runs, t0, deadline_s):
    """build, run, merge. Returns (coverage dict, violations list, internal errors)."""
    os.makedirs(os.path.join(C.OUT, "tmp"), exist_ok=True)
    os.makedirs(os.path.join(C.OUT, "runs"), exist_ok=True)
    builds = C.build_many(binary_jobs(runs))
    internal = []
    dropped = {}
    for name, (path, disabled, log) in builds.items():
        if path is None:
            internal.append("harness %s does not build even with every optional operation group disabled:\n%s" % (name, log[-1500:]))
        elif disabled:
            dropped[name] = disabled
    if internal:
        return {}, [], internal
    workers = max(4 if len(runs) <= 24 else 2, C.NCPU // max(1, len(runs)))
    cmds = []
    outfiles = {}
    for r in runs:
        key = run_key(r)
        of = os.path.join(C.OUT, "runs", "%s_%s_%s.json" % (prop, tier, key))
        if os.path.exists(of):
            os.unlink(of)
        outfiles[key] = (of, r)
        cmds.append((key, engine_argv(builds["eng_%s_%s" % (r["list"], r["alloc"])][0], r, prop, of, workers,
                                      deadline_s)))  # per engine process, counted from its own start (build time does not eat into it)
    res = C.run_many(cmds)
    cov = dict(states=0, transitions=0, traces_validated_against_impl=0, terminal_checks=0, fault_runs=0,
               foreign_seen=0, crashes=0, configs=[], samples=[], ops_dropped_by_probe=dropped)
    violations = []
    all_fix = True
    all_done = True
    distinct_obs = 0
    for key, (of, r) in sorted(outfiles.items()):
        rc, _ = res[key]
        if not os.path.exists(of):
            internal.append("engine run %s produced no result (exit %s)" % (key, rc))
            continue
        d = json.load(open(of))
        if d.get("internal_error"):
            internal.append("engine run %s: %s" % (key, d.get("internal_msg")))
            continue
        cov["states"] += d["states"]
        cov["transitions"] += d["transitions"]
        cov["traces_validated_against_impl"] += d["transitions"] + d["fault_runs"] + d["terminal_checks"]
        cov["terminal_checks"] += d["terminal_checks"]
        cov["fault_runs"] += d["fault_runs"]
        cov["foreign_seen"] += d["foreign_seen"]
        cov["pruned_behind_known_findings"] = cov.get("pruned_behind_known_findings", 0) + d.get("known_pruned", 0)
        cov["crashes"] += d["crashes"]
        distinct_obs += d["distinct_observations"]
        all_fix = all_fix and d["fixpoint"]
        all_done = all_done and not d["deadline_hit"]
        cov["configs"].append({"run": key, "states": d["states"], "transitions": d["transitions"],
                               "depth_completed": d["depth_completed"], "fixpoint": d["fixpoint"],
                               "deadline_hit": d["deadline_hit"], "wall_s": round(d["wall_s"], 2)})
        for s in d["samples"][:2]:
            if len(cov["samples"]) < 12:
                cov["samples"].append({"config": key, "history": s})
        for v in d["violations"]:
            sig = "%s|%s|%s|%s|%s" % (prop, v["monitor"], v["op"], d["class"], v["discr"])
            violations.append({
                "sig": sig,
                "msg": "%s [%s/%s %s] history: %s" % (v["msg"], d["list"], d["alloc"], r["mode"], v["history"]),
                "payload": {"engine": "engine.cpp", "list": d["list"], "alloc": d["alloc"], "run": r,
                            "history": v["history"], "fail_at": v.get("fail_at", 0), "monitor": v["monitor"], "message": v["msg"],
                            "occurrences": v["count"]},
            })
    cov["distinct_observations"] = distinct_obs
    cov["fixpoint"] = all_fix
    cov["exhaustive"] = all_done
    cov["evaluations"] = cov["traces_validated_against_impl"]
    cov["distinct_nontrivial"] = cov["states"]
    cov["rule"] = ("breadth-first enumeration of operation histories over the real library code; a case is one "
                   "transition (state x enabled operation) executed in a forked process; distinct = canonical states "
                   "(capacity, size, all block bytes, model contents, live-object registry)")
    if not cov["samples"]:
        cov["samples"] = [{"note": "no state beyond the initial ones"}]
    return cov, violations, internal


ASSUMPTIONS = [
    "bounded domain: capacities, varying counts and payload budgets as listed per run; values from a small id-derived domain",
    "g++ 12 -O1 with AddressSanitizer (recover mode); the harness allocator aligns block bases to exactly alignof(value_type) unless base=1 (page aligned)",
    "canonical-form merging is sound because the library keeps no state outside the objects, their blocks and the allocator ledger (checked by C19)",
]


NEG_CELLS = ["const_reference = const_reference", "const_reference = reference", "reference{const_reference}",
             "reference = const_reference (implicit conversion)", "swap(const_reference, const_reference)",
             "iterator{const_iterator}", "iterator = const_iterator", "reference{const element}", "const_reference = element",
             "const_reference = rvalue element", "iter_swap(const_iterator, const_iterator)", "const_reference = rvalue const_reference"]


def constness_probes(prop, tier):
    """compile-time half of C11: get<I> on const access paths yields const types (positive cell) and no write through a
    const access path compiles (negative cells: a cell that compiles is a violation)"""
    import concurrent.futures as cf
    import subprocess
    lists = ["P1", "F3", "V3", "M1"] if tier == "quick" else ALL_LISTS

    def one(job):
        l, neg = job
        argv = [C.CXX, "-std=c++17", "-fsyntax-only", "-DNDEBUG", "-I" + C.SRC, "-I" + C.HARNESS, "-DCFG_LIST=%s" % l,
                os.path.join(C.HARNESS, "constness.cpp")]
        if neg is not None:
            argv.append("-DNEG=%d" % neg)
        p = subprocess.run(argv, stdout=subprocess.PIPE, stderr=subprocess.STDOUT, text=True)
        return p.returncode, p.stdout

    jobs = [(l, n) for l in lists for n in [None] + list(range(len(NEG_CELLS)))]
    with cf.ThreadPoolExecutor(max_workers=C.NCPU) as ex:
        results = list(ex.map(one, jobs))
    viol = []
    for (l, n), (rc, log) in zip(jobs, results):
        if n is None and rc != 0:
            err = [x for x in log.splitlines() if "error" in x][:1]
            viol.append({"sig": "%s|constness|types|%s|positive" % (prop, l),
                         "msg": "const access paths do not yield const types for list %s: %s" % (l, err[0][:200] if err else ""),
                         "payload": {"engine": "constness.cpp", "list": l, "cell": "positive", "compiler_output": log[-2000:]}})
        if n is not None and rc == 0:
            viol.append({"sig": "%s|constness|write-through-const|%s|neg%d" % (prop, l, n),
                         "msg": "'%s' compiles for list %s: a const access path can be written through" % (NEG_CELLS[n], l),
                         "payload": {"engine": "constness.cpp", "list": l, "cell": NEG_CELLS[n]}})
    return len(jobs), viol


def run_check(prop, tier):
    t0 = time.time()
    deadline = 240.0 if tier == "quick" else 1500.0
    runs = spec(prop, tier)
    cov, violations, internal = collect(prop, tier, runs, t0, deadline)
    cov["bounds"] = {"tier": tier, "runs": len(runs)}
    assumptions = list(ASSUMPTIONS)
    if prop == "C11" and not internal:
        ncells, cviol = constness_probes(prop, tier)
        violations += cviol
        cov["constness_cells"] = ncells
        cov["evaluations"] += ncells
        cov["rule"] += ("; plus compile-time cells per list: one positive cell (get<I>, operator[], iterators on const access paths "
                        "yield const types) and 12 negative cells (every way of writing through a const_reference, const_iterator or "
                        "const element must be ill-formed)")
    if prop in ("C01", "C02", "C03", "C04", "C05") and not internal:
        from . import layout_checks
        lcov, lviol, linternal = layout_checks.run_layout(prop, tier, t0)
        internal += linternal
        violations += lviol
        if lcov:
            cov.update(lcov)
            cov["evaluations"] += lcov["layout_cases"]
            cov["distinct_nontrivial"] += lcov["layout_cases"]
            cov["traces_validated_against_impl"] += lcov["layout_cases"]
            cov["samples"] += [{"layout_case": s} for s in lcov["layout_samples"][:4]]
            cov["rule"] += ("; plus the layout family: every list of <= 2 (thorough: <= 3) logical parameters over kind x "
                            "(size, AlignAs) x count type, every fixed-size vector, every N and every distribution of varying "
                            "counts, filled to exactly the declared capacity and budget (each case is a distinct input)")
            assumptions.append("layout family translation units are compiled with -O0 (4x faster to build); the history runs use -O1")
    if prop == "C02" and not internal:
        # emplace_back with every source form x source type: a source that is copied with the wrong width or past its
        # end is a memory-safety violation too (ASan reports of the emplace matrix)
        from . import emplace_checks
        ecov, eviol, einternal = emplace_checks.matrix(prop, tier, only_monitor="asan")
        internal += einternal
        violations += eviol
        cov["emplace_cells"] = ecov.get("evaluations", 0)
        cov["evaluations"] += ecov.get("evaluations", 0)
        cov["traces_validated_against_impl"] += ecov.get("traces_validated_against_impl", 0)
    return C.finish(prop, tier, LEVEL[prop], cov, violations, assumptions, t0, internal)
