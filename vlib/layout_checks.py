"""Layout engine driver (C02-C05 packing / bounds / alignment / order clauses over a generated list family)."""
import hashlib
import itertools
import json
import os
import time

from . import common as C

TYPES10 = [("u8", 0), ("u8", 2), ("u8", 4), ("u16", 0), ("u16", 4), ("u32", 0), ("u32", 8), ("u32", 16), ("u64", 0), ("u64", 8)]
# -O0 without debug info: these translation units instantiate ~30 lists each and compile 4x faster this way
LAYOUT_FLAGS = ["-std=c++17", "-O0", "-DNDEBUG", "-fsanitize=address", "-fsanitize-recover=address", "-fno-omit-frame-pointer"]
COUNT_TYPES = {"c8": "D<P, u8>", "csz": "D<P, sz, 8>", "c16": "D<P, u8, 16>", "c32": "D<P, u32>"}


def tname(t):
    return t[0] + ("a%d" % t[1] if t[1] else "")


def dtype(kind, t):
    return "D<%s, %s%s>" % (kind, t[0], (", %d" % t[1]) if t[1] else "")


TYPES6 = [("u8", 0), ("u16", 0), ("u32", 0), ("u32", 8), ("u32", 16), ("u64", 0)]


def family(tier):
    """returns list of (name, [descriptor strings]).
    quick:    every list of <= 2 logical parameters over {P,F,V} x TYPES10 (930) plus the three-parameter family A
              "aligned plain parameter, lower-aligned parameter of any kind, aligned plain/fixed parameter" (480)
    thorough: the two-parameter lists with three count types, every three-parameter list over {P,F,V} x TYPES6
              (5 832) and the four-parameter family B (aligned head, plain/fixed filler, any middle, aligned tail).
              (The first version used eight types and up to eight count cells per case; one thorough run then took
              two hours, five properties use it, so it was cut to what finishes in minutes.)"""
    lists = []
    seen = set()

    def add(params, ct):
        ds, names = [], []
        for kind, t in params:
            if kind == "V":
                ds.append(COUNT_TYPES[ct])
            ds.append(dtype(kind, t))
            names.append("%s:%s" % (kind, tname(t)))
        nm = ",".join(names)
        if any(k == "V" for k, _ in params):
            nm += "(%s)" % ct
        if nm not in seen:
            seen.add(nm)
            lists.append((nm, ds))

    opts = [(k, t) for k in "PFV" for t in TYPES10]
    counts = ["c8"] if tier == "quick" else ["c8", "csz", "c16"]
    for n in (1, 2):
        for params in itertools.product(opts, repeat=n):
            has_v = any(k == "V" for k, _ in params)
            for ct in (counts if has_v else ["c8"]):
                add(params, ct)
    head = [("P", t) for t in [("u32", 8), ("u8", 8), ("u64", 8), ("u32", 0), ("u8", 0)]]
    middle = [(k, t) for k in "PFV" for t in [("u8", 0), ("u16", 0), ("u32", 0), ("u64", 0)]]
    tail = [(k, t) for k in "PF" for t in [("u8", 8), ("u32", 8), ("u64", 8), ("u8", 0)]]
    if tier == "quick":
        for params in itertools.product(head, middle, tail):
            add(params, "c8")
    else:
        opts6 = [(k, t) for k in "PFV" for t in TYPES6]
        for params in itertools.product(opts6, repeat=3):
            add(params, "c8")
        filler = [(k, t) for k in "PF" for t in [("u32", 0), ("u8", 0)]]
        for params in itertools.product(head[:3], filler, middle, tail[:6]):
            add(params, "c8")
    return lists


def gen_tus(lists, ntu, tag):
    d = os.path.join(C.build_dir(), "layout_" + tag)
    os.makedirs(d, exist_ok=True)
    chunks = [lists[i::ntu] for i in range(ntu)]
    files = []
    for k, chunk in enumerate(chunks):
        if not chunk:
            continue
        path = os.path.join(d, "lists_%d.inc" % k)
        with open(path, "w") as fh:
            fh.write("using u64 = unsigned long long;\n")
            for i, (nm, ds) in enumerate(chunk):
                fh.write("using LL%d = List<%s>;\n" % (i, ", ".join(ds)))
            fh.write("static void run_all_lists(Totals& tot)\n{\n")
            for i, (nm, ds) in enumerate(chunk):
                fh.write("    Run<LL%d>::all(\"%s\", tot);\n" % (i, nm))
            fh.write("}\n")
        files.append((k, path, len(chunk)))
    return files


def classify(nm):
    kinds = set(p.split(":")[0] for p in nm.split("(")[0].split(","))
    cls = "mixed" if ("F" in kinds and "V" in kinds) else "fixed" if "F" in kinds else "varying" if "V" in kinds else "plain"
    return cls


def run_layout(prop, tier, t0):
    """returns (coverage, violations, internal)"""
    lists = family(tier)
    ntu = 48 if tier == "quick" else 512
    tag = hashlib.sha256(json.dumps(lists).encode()).hexdigest()[:10]
    files = gen_tus(lists, ntu, tag)
    jobs = []
    for k, path, n in files:
        jobs.append(("layout.cpp", ["LAYOUT_INC=%s" % path], "layout_%s_%d" % (tag, k), LAYOUT_FLAGS))
    builds = C.build_many(jobs)
    internal = []
    for name, (path, disabled, log) in builds.items():
        if path is None:
            internal.append("layout harness %s does not build:\n%s" % (name, log[-1500:]))
    if internal:
        return {}, [], internal
    os.makedirs(os.path.join(C.OUT, "runs"), exist_ok=True)
    cmds, outs = [], {}
    # cells: bound on the count cells (elements x VaryingSize parameters) whose values are enumerated completely
    nmax, cmax, fmax, cells = (3, 3, 3, 8) if tier == "quick" else (4, 3, 3, 6)
    for k, path, n in files:
        name = "layout_%s_%d" % (tag, k)
        of = os.path.join(C.OUT, "runs", "%s_%s_%s.json" % (prop, tier, name))
        if os.path.exists(of):
            os.unlink(of)
        outs[name] = of
        cmds.append((name, [builds[name][0], "--out", of, "--nmax", str(nmax), "--cmax", str(cmax), "--fmax", str(fmax), "--cells", str(cells)]))
    res = C.run_many(cmds)
    cov = dict(layout_lists=0, layout_cases=0, layout_elements=0, layout_samples=[])
    violations = []
    for name, of in sorted(outs.items()):
        if not os.path.exists(of):
            rc = res[name][0]
            internal.append("layout run %s produced no result (exit %s): a case crashed the process" % (name, rc))
            continue
        d = json.load(open(of))
        cov["layout_lists"] += d["lists"]
        cov["layout_cases"] += d["cases"]
        cov["layout_elements"] += d["elements"]
        for s in d["samples"][:1]:
            if len(cov["layout_samples"]) < 6:
                cov["layout_samples"].append(s)
        for v in d["violations"]:
            if prop not in v["props"].split(","):
                continue
            sig = "%s|%s|layout|%s|%s" % (prop, v["monitor"], v["list"], v["discr"])
            violations.append({"sig": sig, "msg": "%s [list %s] case: %s (%d cases)" % (v["msg"], v["list"], v["case"], v["count"]),
                               "payload": {"engine": "layout.cpp", "list": v["list"], "case": v["case"], "monitor": v["monitor"],
                                           "message": v["msg"], "occurrences": v["count"]}})
    return cov, violations, internal
