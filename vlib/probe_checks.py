"""C20: probe matrix operation x parameter list x allocator kind x language standard (compile-time cells)."""
import concurrent.futures as cf
import os
import subprocess
import time

from . import common as C
from . import engine_checks as E

NCELLS = 45
EXTRA_LISTS = []  # the catalogue already contains plain/fixed/varying/mixed x with/without AlignAs x trivial/non-trivial


def syntax(lst, alloc, std, only=None):
    argv = [C.CXX, "-std=c++%d" % std, "-fsyntax-only", "-DNDEBUG", "-I" + C.SRC, "-I" + C.HARNESS, "-DCFG_LIST=%s" % lst,
            "-DCFG_ALLOC=%s" % alloc, os.path.join(C.HARNESS, "probe.cpp")]
    if only is not None:
        argv.append("-DPROBE_ONLY=%d" % only)
    p = subprocess.run(argv, stdout=subprocess.PIPE, stderr=subprocess.STDOUT, text=True)
    return p.returncode, p.stdout


def cell_table(lst):
    """which cells are required for this list (computed from type traits by the probe TU itself)"""
    out = os.path.join(C.build_dir(), "probe_cells_%s" % lst)
    if not os.path.exists(out):
        rc, log = C._compile([C.CXX, "-std=c++17", "-DNDEBUG", "-DPROBE_LIST_CELLS", "-DPROBE_ONLY=-2", "-I" + C.SRC, "-I" + C.HARNESS,
                              "-DCFG_LIST=%s" % lst, "-DCFG_ALLOC=AE", os.path.join(C.HARNESS, "probe.cpp"), "-o", out])
        if rc != 0:
            return None
    p = subprocess.run([out], stdout=subprocess.PIPE, text=True)
    table = {}
    for line in p.stdout.splitlines():
        n, need, name = line.split("\t", 2)
        table[int(n)] = (need == "1", name)
    return table


def first_error(log):
    for line in log.splitlines():
        if "error:" in line:
            return line.split("error:", 1)[1].strip()[:220]
    return log[-200:]


def run_check(prop, tier):
    t0 = time.time()
    q = tier == "quick"
    lists = E.ALL_LISTS
    # XNP / XPP: allocators whose converting (rebinding) constructor is explicit
    allocs = ["AE", "NP", "PP", "XNP"] if q else ["AE", "NP", "PP", "NPS", "XNP", "XPP"] + E.TRAIT_KINDS[1:7]
    stds = [17] if q else [17, 20]
    internal = []
    violations = []
    cov = dict(evaluations=0, distinct_nontrivial=0, samples=[], configs=0, exhaustive=True, cells_not_required=0)
    with cf.ThreadPoolExecutor(max_workers=C.NCPU) as ex:
        tables = dict(zip(lists, ex.map(cell_table, lists)))
        jobs = [(l, a, s) for l in lists for a in allocs for s in stds]
        results = list(ex.map(lambda j: syntax(*j), jobs))
        failing = [j for j, (rc, _) in zip(jobs, results) if rc != 0]
        # a failing configuration is re-run one cell per compilation to name the cells
        cell_jobs = [(l, a, s, n) for (l, a, s) in failing for n in range(NCELLS) if tables[l] and tables[l][n][0]]
        cell_results = list(ex.map(lambda j: syntax(*j), cell_jobs))
    for l in lists:
        if tables[l] is None:
            internal.append("the probe cell table for list %s does not build" % l)
    if not internal:
        for (l, a, s), (rc, log) in zip(jobs, results):
            need = sum(1 for n in range(NCELLS) if tables[l][n][0])
            cov["evaluations"] += need
            cov["cells_not_required"] += NCELLS - need
            cov["configs"] += 1
        cov["distinct_nontrivial"] = cov["evaluations"]
        for (l, a, s, n), (rc, log) in zip(cell_jobs, cell_results):
            if rc != 0:
                name = tables[l][n][1]
                cls = E_class(l)
                sig = "%s|probe|cell%d|%s+%s|c++%d" % (prop, n, cls, a, s)
                violations.append({"sig": sig, "msg": "'%s' is ill-formed for list %s / allocator %s / -std=c++%d: %s" % (name, l, a, s, first_error(log)),
                                   "payload": {"engine": "probe.cpp", "list": l, "alloc": a, "std": s, "cell": n, "operation": name,
                                               "compiler_output": log[-3000:]}})
        if failing and not violations:
            internal.append("configurations fail as a whole but every single cell compiles: %s" % failing[:3])
        for l in lists[:4]:
            cov["samples"].append({"list": l, "alloc": allocs[0], "std": stds[0],
                                   "cells": [tables[l][n][1] for n in (2, 5, 20, 27, 35) if tables[l][n][0]]})
    cov["rule"] = ("one case = one documented operation (41 cells: constructors incl. allocator-extended, copy/move construction and "
                   "assignment, emplace_back forms, pop_back, erase, clear, reserve, swap, comparisons, iteration, structured bindings, "
                   "reference/element assignments) instantiated for one list x allocator kind x language standard; a cell is required "
                   "iff the value types meet the operation's requirements (type traits); each required cell is distinct")
    cov["lists"] = lists
    cov["allocators"] = allocs
    cov["standards"] = stds
    assumptions = ["compiler: g++ 12 -fsyntax-only (well-formedness as judged by this compiler; MSVC/clang are not checked)",
                   "list catalogue: 19 lists covering plain / FixedSize / VaryingSize / mixed, with and without AlignAs, trivial, copyable non-trivial and move-only value types"]
    return C.finish(prop, tier, "exploration", cov, violations, assumptions, t0, internal)


def E_class(l):
    kinds = {"P": "plain", "F": "fixed", "V": "varying", "M": "mixed"}
    return kinds[l[0]] + ":" + l
