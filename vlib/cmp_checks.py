"""Comparison engine driver (C13, C14)."""
import json
import os
import time

from . import common as C

QUICK = ["K1", "K2", "K4", "K5", "K6", "K7", "K8", "K9", "K14", "K16", "K17", "K19", "K20", "K21", "K22", "K23", "K24", "K25", "K26", "K27"]
ALL = ["K1", "K2", "K3", "K4", "K5", "K6", "K7", "K8", "K9", "K10", "K11", "K12", "K13", "K14", "K15", "K16", "K17", "K18", "K19", "K20", "K21", "K22", "K23", "K24", "K25", "K26", "K27"]

ASSUMPTIONS = [
    "value domain {0, 1, 200} per object ({0.0, -0.0, 1.0} for float), span lengths <= 2 (thorough: <= 3), fixed sizes {1, 2}",
    "vector operands: all sequences of length <= 2 over 4 representative elements; right-hand sides in 4 memory environments x 2 allocator types",
    "the oracle for vector < is the lexicographical comparison under the implementation's own element < (C14 does not demand a lexicographic element order)",
]


def run_check(prop, tier):
    t0 = time.time()
    lists = QUICK if tier == "quick" else ALL
    maxlen = 2 if tier == "quick" else 3
    jobs = [("cmp.cpp", ["CFG_LIST=%s" % l], "cmp_%s" % l) for l in lists]
    builds = C.build_many(jobs)
    internal = []
    for name, (path, disabled, log) in builds.items():
        if path is None:
            internal.append("comparison harness %s does not build:\n%s" % (name, log[-1500:]))
    cov = dict(states=0, transitions=0, traces_validated_against_impl=0, evaluations=0, distinct_nontrivial=0, samples=[],
               configs=[], exhaustive=True)
    violations = []
    if not internal:
        os.makedirs(os.path.join(C.OUT, "runs"), exist_ok=True)
        cmds, outs = [], {}
        for l in lists:
            of = os.path.join(C.OUT, "runs", "%s_%s_cmp_%s.json" % (prop, tier, l))
            if os.path.exists(of):
                os.unlink(of)
            outs[l] = of
            cmds.append((l, [builds["cmp_%s" % l][0], "--out", of, "--maxlen", str(maxlen)]))
        res = C.run_many(cmds)
        for l, of in sorted(outs.items()):
            if not os.path.exists(of):
                violations.append({"sig": "%s|crash|compare|%s|exit-%s" % (prop, l, res[l][0]),
                                   "msg": "comparison run for list %s died (exit %s)" % (l, res[l][0]),
                                   "payload": {"engine": "cmp.cpp", "list": l}})
                continue
            d = json.load(open(of))
            cov["evaluations"] += d["comparisons"]
            cov["distinct_nontrivial"] += d["nontrivial"]
            cov["states"] += d["vectors_built"]
            cov["transitions"] += d["element_pairs"] + d["vector_pairs"]
            cov["traces_validated_against_impl"] += d["element_pairs"] + d["vector_pairs"] + d["element_triples"] + d["vector_triples"]
            cov["configs"].append({k: d[k] for k in ("list", "comparisons", "element_pairs", "element_triples", "vector_pairs",
                                                     "vector_triples", "vectors_built", "wall_s")})
            for s in d["samples"][:2]:
                if len(cov["samples"]) < 10:
                    cov["samples"].append({"list": l, "case": s})
            for v in d["violations"]:
                if prop not in v["props"].split(","):
                    continue
                sig = "%s|%s|compare|%s|%s" % (prop, v["monitor"], l, v["discr"])
                violations.append({"sig": sig, "msg": "%s (%d occurrences)" % (v["msg"], v["count"]),
                                   "payload": {"engine": "cmp.cpp", "list": l, "message": v["msg"], "occurrences": v["count"]}})
    cov["rule"] = ("exhaustive operand enumeration: every pair (for the order axioms every triple) of elements over the value "
                   "domain x 10 operand-kind combinations x 2 memory environments, every pair/triple of 21 vectors x 8 right-hand "
                   "variants; states = distinct vectors built, transitions = operand pairs compared; non-trivial = pairs whose "
                   "operands differ and are non-empty")
    return C.finish(prop, tier, "model_checking", cov, violations, ASSUMPTIONS, t0, internal)
