"""Shared driver pieces: build cache, parallel execution, known findings, evidence, replay files."""
import concurrent.futures as cf
import fnmatch
import hashlib
import json
import os
import subprocess
import sys
import time

VERIF = os.path.dirname(os.path.dirname(os.path.abspath(__file__)))
REPO = os.environ.get("VERIF_REPO", "/repo")
SRC = os.path.join(REPO, "src")
BUILD = os.path.join(VERIF, "build")
OUT = os.path.join(VERIF, "out") if os.path.realpath(REPO) == "/repo" else os.path.join(VERIF, "out", "scratch")
HARNESS = os.path.join(VERIF, "harness")
# evidence committed under /verif/evidence always comes from runs against /repo itself; runs pointed at a scratch
# tree (VERIF_REPO, used to try seeded changes) write theirs under out/
EVIDENCE = os.path.join(VERIF, "evidence") if os.path.realpath(REPO) == "/repo" else os.path.join(OUT, "evidence_scratch")
KNOWN = os.path.join(VERIF, "known_findings.txt")
NCPU = os.cpu_count() or 16

ASAN_ENV = "detect_leaks=0:halt_on_error=0:symbolize=0:allocator_may_return_null=1:handle_abort=1"

CXX = "g++"
BASE_FLAGS = ["-std=c++17", "-O1", "-g", "-DNDEBUG", "-fsanitize=address", "-fsanitize-recover=address",
              "-fno-omit-frame-pointer"]

GROUPS = ["COPY", "MOVE", "SWAP", "ERASE", "RESERVE", "CMP", "PLAIN_ALLOC_CTOR", "REF_ASSIGN", "REF_SWAP", "ELEM",
          "ELEM_COPY", "ELEM_MOVE", "ELEM_SWAP", "ELEM_ASSIGN_REF", "REF_ASSIGN_ELEM"]


def _hash_tree(paths):
    h = hashlib.sha256()
    for root in paths:
        if os.path.isfile(root):
            files = [root]
        else:
            files = []
            for d, _, fs in os.walk(root):
                for f in fs:
                    files.append(os.path.join(d, f))
        for f in sorted(files):
            h.update(f.encode())
            with open(f, "rb") as fh:
                h.update(fh.read())
    return h.hexdigest()


_src_hash_cache = {}


def src_hash():
    """hash of the library sources under test (split headers) - a changed tree always triggers a rebuild"""
    if "h" not in _src_hash_cache:
        _src_hash_cache["h"] = _hash_tree([os.path.join(SRC, "cntgs")])
    return _src_hash_cache["h"]


def harness_hash():
    if "hh" not in _src_hash_cache:
        _src_hash_cache["hh"] = _hash_tree([HARNESS])
    return _src_hash_cache["hh"]


def build_dir():
    d = os.path.join(BUILD, hashlib.sha256((src_hash() + harness_hash()).encode()).hexdigest()[:20])
    if "bd" not in _src_hash_cache:
        os.makedirs(d, exist_ok=True)
        os.utime(d, None)
        # disk space is limited: keep only the most recently used build directories
        try:
            import shutil
            dirs = sorted((os.path.join(BUILD, x) for x in os.listdir(BUILD) if os.path.isdir(os.path.join(BUILD, x))),
                          key=os.path.getmtime, reverse=True)
            for old in dirs[8:]:
                if time.time() - os.path.getmtime(old) > 3 * 3600:  # never a directory another run may still be using
                    shutil.rmtree(old, ignore_errors=True)
        except OSError:
            pass
        _src_hash_cache["bd"] = d
    return d


def _compile(cmd):
    p = subprocess.run(cmd, stdout=subprocess.PIPE, stderr=subprocess.STDOUT, text=True)
    return p.returncode, p.stdout


def build_one(source, defines, name, flags=None, link=None):
    """compile harness/<source> with -D defines into build/<hash>/<name>; returns (path, disabled groups, log)"""
    out = os.path.join(build_dir(), name)
    meta = out + ".meta.json"
    if os.path.exists(out) and os.path.exists(meta):
        with open(meta) as fh:
            m = json.load(fh)
        return out, m.get("disabled", []), ""
    flags = list(BASE_FLAGS if flags is None else flags)
    base = [CXX] + flags + ["-I" + SRC, "-I" + HARNESS] + ["-D" + d for d in defines] + [os.path.join(HARNESS, source)]
    rc, log = _compile(base + ["-o", out + ".tmp"] + (link or []))
    disabled = []
    if rc != 0:
        # the library does not compile some operation for this configuration: find out which groups and drop
        # them from this configuration's alphabet (C20 decides whether that is a defect)
        alloff = ["-DHAVE_%s=0" % g for g in GROUPS]
        rc0, log0 = _compile(base + alloff + ["-fsyntax-only"])
        if rc0 != 0:
            return None, GROUPS, log0
        good = []
        with cf.ThreadPoolExecutor(max_workers=8) as ex:
            futs = {}
            for g in GROUPS:
                on = ["-DHAVE_%s=0" % x for x in GROUPS if x != g and not (g.startswith("ELEM_") and x == "ELEM")
                      and not (g == "REF_ASSIGN_ELEM" and x == "ELEM")]
                futs[ex.submit(_compile, base + on + ["-fsyntax-only"])] = g
            for f in cf.as_completed(futs):
                if f.result()[0] == 0:
                    good.append(futs[f])
        disabled = [g for g in GROUPS if g not in good]
        rc, log = _compile(base + ["-DHAVE_%s=0" % g for g in disabled] + ["-o", out + ".tmp"] + (link or []))
        if rc != 0:
            return None, disabled, log
    os.replace(out + ".tmp", out)
    with open(meta, "w") as fh:
        json.dump({"disabled": disabled, "defines": defines}, fh)
    return out, disabled, ""


def build_many(jobs):
    """jobs: list of (source, defines, name[, flags[, link]]); returns {name: (path, disabled, log)}"""
    res = {}
    with cf.ThreadPoolExecutor(max_workers=NCPU) as ex:
        futs = {ex.submit(build_one, *j): j[2] for j in jobs}
        for f in cf.as_completed(futs):
            res[futs[f]] = f.result()
    return res


def run_many(cmds, timeout=None):
    """cmds: list of (key, argv); runs at most NCPU at a time; returns {key: (rc, stdout)}"""
    env = dict(os.environ)
    env["ASAN_OPTIONS"] = ASAN_ENV
    env["TSAN_OPTIONS"] = "report_signal_unsafe=0"
    res = {}

    def one(argv):
        try:
            p = subprocess.run(argv, stdout=subprocess.PIPE, stderr=subprocess.DEVNULL, text=True, env=env,
                               timeout=timeout)
            return p.returncode, p.stdout
        except subprocess.TimeoutExpired:
            return 124, ""

    with cf.ThreadPoolExecutor(max_workers=NCPU) as ex:
        futs = {ex.submit(one, argv): key for key, argv in cmds}
        for f in cf.as_completed(futs):
            res[futs[f]] = f.result()
    return res


# ------------------------------------------------------------------ known findings
def load_known():
    known, fixed = [], []
    if os.path.exists(KNOWN):
        for line in open(KNOWN):
            line = line.strip()
            if not line or line.startswith("#"):
                continue
            parts = line.split(None, 3)
            if parts[0] == "known:" and len(parts) >= 3:
                prop = parts[1].split("=", 1)[1]
                sig = parts[2].split("=", 1)[1]
                known.append({"property": prop, "sig": sig, "text": parts[3] if len(parts) > 3 else ""})
            elif parts[0] == "fixed:":
                fixed.append(line)
    return known, fixed


def match_known(known, prop, sig):
    for k in known:
        if k["property"] == prop and fnmatch.fnmatchcase(sig, k["sig"]):
            return k
    return None


# ------------------------------------------------------------------ reporting
def write_replay(prop, sig, payload):
    d = os.path.join(OUT, "replays")
    os.makedirs(d, exist_ok=True)
    h = hashlib.sha256(sig.encode()).hexdigest()[:12]
    path = os.path.join(d, "%s-%s.json" % (prop, h))
    payload = dict(payload)
    payload["property"] = prop
    payload["signature"] = sig
    with open(path, "w") as fh:
        json.dump(payload, fh, indent=1)
    return path


def finish(prop, tier, level, coverage, violations, assumptions, t0, internal_errors=None):
    """violations: list of dict(sig, msg, replay payload). Prints the protocol lines, writes evidence, returns exit code."""
    known, _ = load_known()
    unknown = 0
    hit = {}
    uniq = {}
    for v in violations:
        if v["sig"] in uniq:
            uniq[v["sig"]]["payload"]["also_in_other_runs"] = uniq[v["sig"]]["payload"].get("also_in_other_runs", 0) + 1
        else:
            uniq[v["sig"]] = v
    for v in uniq.values():
        k = match_known(known, prop, v["sig"])
        if k:
            hit.setdefault(k["sig"], [k, 0])
            hit[k["sig"]][1] += 1
            continue
        path = write_replay(prop, v["sig"], v["payload"])
        print("VIOLATION property=%s replay=%s" % (prop, path))
        print("   signature: %s" % v["sig"])
        print("   %s" % v.get("msg", ""))
        unknown += 1
    for sig, (k, n) in sorted(hit.items()):
        print("KNOWN-FINDING: property=%s %s (%d occurrence(s)) sig=%s" % (prop, k["text"], n, sig))
    coverage = dict(coverage)
    coverage["known_findings_hit"] = sorted(hit.keys())
    ev = {
        "property_id": prop,
        "tier": tier,
        "seed": int(os.environ.get("VERIF_SEED", "0") or 0),
        "level": level,
        "coverage": coverage,
        "assumptions": assumptions,
        "wall_s": round(time.time() - t0, 2),
        "violations": unknown,
    }
    os.makedirs(EVIDENCE, exist_ok=True)
    with open(os.path.join(EVIDENCE, "%s.json" % prop), "w") as fh:
        json.dump(ev, fh, indent=1)
    if internal_errors:
        for e in internal_errors:
            print("INTERNAL-ERROR: %s" % e)
        # violations that were found before something went wrong are still violations
        return 1 if unknown else 2
    print("%s %s: %s; states=%s transitions=%s evaluations=%s wall=%.1fs" % (
        prop, tier, "HELD on everything explored" if unknown == 0 else "%d VIOLATION(S)" % unknown,
        coverage.get("states"), coverage.get("transitions"), coverage.get("evaluations"), time.time() - t0))
    return 1 if unknown else 0
