"""emplace engine driver (C15)."""
import json
import os
import time

from . import common as C

NPAIRS = 22
QUICK = [0, 1, 2, 3, 4, 5, 6, 7, 8, 9, 10, 11, 12, 13, 14, 15, 16, 21]

ASSUMPTIONS = [
    "source items take the values {2, 3, 200, 77} (mapped into the source type); lengths 0..3",
    "forms: std::vector (lvalue, const, rvalue), std::list (lvalue, rvalue), C array, std::array, std::initializer_list, cntgs::Span (mutable/const), generated single-pass range; iterators (FixedSize only): pointers, vector/list iterators, counting input iterator, move_iterators",
    "cells C++ itself rejects (e.g. copying a move-only type) are excluded by is_constructible on the source reference type",
]


def run_check(prop, tier):
    t0 = time.time()
    cov, violations, internal = matrix(prop, tier)
    return C.finish(prop, tier, "model_checking", cov, violations, ASSUMPTIONS, t0, internal)


def matrix(prop, tier, only_monitor=None):
    """runs the whole source-form matrix; only_monitor restricts the reported violations (C02 takes the ASan reports)"""
    pairs = QUICK if tier == "quick" else list(range(NPAIRS))
    jobs = [("emplace.cpp", ["CFG_PAIR=%d" % k], "emp_%d" % k) for k in pairs]
    builds = C.build_many(jobs)
    internal = []
    for name, (path, disabled, log) in builds.items():
        if path is None:
            internal.append("emplace harness %s does not build:\n%s" % (name, log[-2500:]))
    cov = dict(evaluations=0, distinct_nontrivial=0, states=0, transitions=0, traces_validated_against_impl=0, samples=[], configs=[],
               exhaustive=True)
    violations = []
    if not internal:
        os.makedirs(os.path.join(C.OUT, "runs"), exist_ok=True)
        cmds, outs = [], {}
        for k in pairs:
            of = os.path.join(C.OUT, "runs", "%s_%s_emp_%d.json" % (prop, tier, k))
            if os.path.exists(of):
                os.unlink(of)
            outs[k] = of
            cmds.append((k, [builds["emp_%d" % k][0], "--out", of]))
        res = C.run_many(cmds)
        for k, of in sorted(outs.items()):
            if not os.path.exists(of):
                violations.append({"sig": "%s|crash|emplace_back|pair%d|exit-%s" % (prop, k, res[k][0]),
                                   "msg": "emplace run for type pair %d died (exit %s)" % (k, res[k][0]),
                                   "payload": {"engine": "emplace.cpp", "pair": k}})
                continue
            d = json.load(open(of))
            cov["evaluations"] += d["cells"]
            cov["distinct_nontrivial"] += d["cells"]
            cov["states"] += d["cells"]
            cov["transitions"] += d["cells"]
            cov["traces_validated_against_impl"] += d["objects"]
            cov["configs"].append({"pair": d["pair"], "cells": d["cells"], "objects": d["objects"]})
            for s in d["samples"][:1]:
                if len(cov["samples"]) < 10:
                    cov["samples"].append(s)
            for v in d["violations"]:
                if only_monitor and not v["discr"].startswith(only_monitor + "|"):
                    continue
                sig = "%s|%s|%s" % (prop, d["pair"].replace(" ", ""), v["discr"])
                violations.append({"sig": sig, "msg": "%s (%d cells)" % (v["msg"], v["count"]),
                                   "payload": {"engine": "emplace.cpp", "pair": d["pair"], "message": v["msg"], "occurrences": v["count"]}})
    cov["rule"] = ("full matrix stored type x source type x source form x length x {FixedSize, VaryingSize}; every cell is a distinct "
                   "input shape; states/transitions = cells (one vector built and one emplace_back per cell), traces = objects stored "
                   "and compared with T(source item)")
    return cov, violations, internal
