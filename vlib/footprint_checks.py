"""C19: footprint engine (engine.cpp instrumented with gcc -fsanitize=thread, linked against harness/env/tsan_rt.cpp)
plus the free-running genuine-ThreadSanitizer cross-check (harness/readers_tsan.cpp)."""
import concurrent.futures as cf
import json
import os
import subprocess
import time

from . import common as C
from . import engine_checks as E

FOOT_FLAGS = ["-std=c++17", "-O1", "-g", "-DNDEBUG", "-fsanitize=thread", "-DHX_FOOTPRINT", "-fno-omit-frame-pointer"]


def build_rt():
    out = os.path.join(C.build_dir(), "tsan_rt.o")
    if not os.path.exists(out):
        rc, log = C._compile([C.CXX, "-std=c++17", "-O1", "-fno-builtin", "-fno-tree-loop-distribute-patterns", "-c",
                              os.path.join(C.HARNESS, "env", "tsan_rt.cpp"), "-o", out + ".tmp"])
        if rc != 0:
            return None, log
        os.replace(out + ".tmp", out)
    return out, ""


def build_foot(lst, alloc, rt):
    name = "foot_%s_%s" % (lst, alloc)
    out = os.path.join(C.build_dir(), name)
    if os.path.exists(out):
        return name, out, ""
    obj = out + ".o"
    base = [C.CXX] + FOOT_FLAGS + ["-I" + C.SRC, "-I" + C.HARNESS, "-DCFG_LIST=%s" % lst, "-DCFG_ALLOC=%s" % alloc, "-c",
                                   os.path.join(C.HARNESS, "engine.cpp"), "-o", obj]
    rc, log = C._compile(base)
    if rc != 0:
        # drop operation groups the library does not compile for this configuration (C20 decides on those)
        alloff = ["-DHAVE_%s=0" % g for g in C.GROUPS]
        rc, log2 = C._compile(base + alloff)
        if rc != 0:
            return name, None, log
    rc, log = C._compile([C.CXX, obj, rt, "-o", out + ".tmp", "-lpthread"])
    if rc != 0:
        return name, None, log
    os.replace(out + ".tmp", out)
    return name, out, ""


ASSUMPTIONS = [
    "const operations contain no synchronisation: two conflicting accesses of different threads are a race in every schedule, so the schedule quantifier reduces to the access footprint of each operation (checked: the instrumentation saw no atomic operation)",
    "accesses are those gcc -fsanitize=thread instruments (every load/store of the library templates, memcpy/memmove/memset/memcmp)",
    "the user's allocator and value types are themselves safe for concurrent const use",
]


def run_check(prop, tier):
    t0 = time.time()
    q = tier == "quick"
    lists = ["P1", "P3", "F1", "F2", "F3", "V1", "V2", "V3", "V5", "M1", "M2"] if q else E.ALL_LISTS
    allocs = ["AE"] if q else ["AE", "NP"]
    runs = []
    for l in lists:
        for a in allocs:
            runs.append(E.R(l, a, "hist", nmax=2 if q else 3, cmax=2, bmax=3 if q else 4, depth=3 if q else 5, junk=1))
    # an allocator with select_on_container_copy_construction: copies of the shared object must not allocate through
    # the source's allocator instance
    for l in (["F3", "V1", "V3"] if q else ["P3", "F1", "F3", "V1", "V3", "M2"]):
        runs.append(E.R(l, "NPS", "hist", nmax=2, cmax=2, bmax=3, depth=3, junk=1))
    internal = []
    rt, log = build_rt()
    if rt is None:
        internal.append("tsan_rt.cpp does not build: " + log[-800:])
    builds = {}
    if not internal:
        with cf.ThreadPoolExecutor(max_workers=C.NCPU) as ex:
            futs = [ex.submit(build_foot, r["list"], r["alloc"], rt) for r in runs]
            tsan_fut = ex.submit(build_readers)
            for f in futs:
                name, path, log = f.result()
                if path is None:
                    internal.append("footprint harness %s does not build:\n%s" % (name, log[-1500:]))
                builds[name] = path
            readers, rlog = tsan_fut.result()
            if readers is None:
                internal.append("readers_tsan.cpp does not build:\n" + rlog[-1500:])
    cov = dict(states=0, transitions=0, traces_validated_against_impl=0, samples=[], configs=[], exhaustive=True)
    violations = []
    if not internal:
        os.makedirs(os.path.join(C.OUT, "runs"), exist_ok=True)
        os.makedirs(os.path.join(C.OUT, "tmp"), exist_ok=True)
        workers = max(1, C.NCPU // max(1, len(runs)))
        cmds, outs = [], {}
        for r in runs:
            key = E.run_key(r)
            of = os.path.join(C.OUT, "runs", "%s_%s_%s.json" % (prop, tier, key))
            if os.path.exists(of):
                os.unlink(of)
            outs[key] = (of, r)
            cmds.append((key, E.engine_argv(builds["foot_%s_%s" % (r["list"], r["alloc"])], r, prop, of, workers, 600)))
        res = C.run_many(cmds)
        for key, (of, r) in sorted(outs.items()):
            if not os.path.exists(of):
                internal.append("footprint run %s produced no result (exit %s)" % (key, res[key][0]))
                continue
            d = json.load(open(of))
            if d.get("internal_error"):
                internal.append("footprint run %s: %s" % (key, d.get("internal_msg")))
                continue
            cov["states"] += d["states"]
            cov["transitions"] += d["transitions"]
            cov["traces_validated_against_impl"] += d["transitions"]
            cov["exhaustive"] = cov["exhaustive"] and not d["deadline_hit"]
            cov["configs"].append({"run": key, "states": d["states"], "transitions": d["transitions"],
                                   "depth_completed": d["depth_completed"], "fixpoint": d["fixpoint"]})
            for s in d["samples"][:2]:
                if len(cov["samples"]) < 8:
                    cov["samples"].append({"config": key, "history": s,
                                           "then": "every const operation recorded: queries, operator[] i, front/back, iteration, comparisons, copy construction, element construction; mutators on copies"})
            for v in d["violations"]:
                sig = "%s|%s|%s|%s|%s" % (prop, v["monitor"], v["op"], d["class"], v["discr"])
                violations.append({"sig": sig, "msg": "%s [%s/%s] history: %s" % (v["msg"], d["list"], d["alloc"], v["history"]),
                                   "payload": {"engine": "engine.cpp(footprint)", "list": d["list"], "alloc": d["alloc"], "run": r,
                                               "history": v["history"], "message": v["msg"]}})
        # free-running cross-check under the genuine ThreadSanitizer
        env = dict(os.environ)
        env["TSAN_OPTIONS"] = "exitcode=66 halt_on_error=0"
        tsan_runs = 3 if q else 20
        reports = 0
        for i in range(tsan_runs):
            p = subprocess.run([readers], env=env, stdout=subprocess.PIPE, stderr=subprocess.PIPE, text=True)
            if p.returncode != 0:
                reports += 1
                first = [l for l in p.stderr.splitlines() if "WARNING: ThreadSanitizer" in l][:1]
                violations.append({"sig": "%s|tsan|readers|16-threads|%s" % (prop, (first[0].split("ThreadSanitizer: ")[1].split(" (")[0] if first else "exit-%d" % p.returncode)),
                                   "msg": "ThreadSanitizer report in the 16-thread reader harness: " + (first[0] if first else p.stderr[-300:]),
                                   "payload": {"engine": "readers_tsan.cpp", "stderr": p.stderr[-3000:]}})
                break
        cov["tsan_crosscheck_runs"] = tsan_runs
        cov["tsan_crosscheck_reports"] = reports
    cov["evaluations"] = cov["transitions"]
    cov["distinct_nontrivial"] = cov["states"]
    cov["rule"] = ("every state of the bounded history exploration x every const operation, executed with all loads/stores logged; a "
                   "const operation must not write the vector object, any block that existed before it, or static storage; mutators "
                   "of a copy must not touch the original or a further copy at all")
    return C.finish(prop, tier, "model_checking", cov, violations, ASSUMPTIONS, t0, internal)


def build_readers():
    out = os.path.join(C.build_dir(), "readers_tsan")
    if os.path.exists(out):
        return out, ""
    rc, log = C._compile([C.CXX, "-std=c++17", "-O1", "-g", "-DNDEBUG", "-fsanitize=thread", "-I" + C.SRC,
                          os.path.join(C.HARNESS, "readers_tsan.cpp"), "-o", out + ".tmp", "-lpthread"])
    if rc != 0:
        return None, log
    os.replace(out + ".tmp", out)
    return out, ""
