#!/usr/bin/env python3
"""Regenerates the `fixed:` lines of known_findings.txt from the fix: commits in /repo (hashes change when the
history is rebased, the subjects identify the repairs). A fixed entry suppresses nothing."""
import os
import subprocess

ROOT = os.path.dirname(os.path.dirname(os.path.abspath(__file__)))
# subject prefix (after "fix: ") -> (properties, failing input / history that showed it)
MAP = [
    ("reference = const element& named", "C20", "probe cell 'reference = const element&' (every list): operator= named other.reference"),
    ("reference assignment and swap were ill-formed", "C20,C11", "probe cells 'reference = reference', 'swap(reference, reference)', std::rotate for lists with a non-trivial VaryingSize parameter (V3, M2)"),
    ("relocating a partly filled VaryingSize vector", "C01,C09,C10", "V3: new(cap 1); rs(2): size() jumped to the old capacity"),
    ("erase on a trivially copyable VaryingSize vector left data_end() stale", "C01,C04", "V1: eb(count 1); eb(count 3); er(0): data_end() inside the last element"),
    ("erase of the last element, of an empty range and clear()", "C02,C18", "V1: full vector, er(last) / err(i,i) / cl() on an empty vector read table[size]"),
    ("data()/data_begin() of an empty VaryingSize vector", "C18", "V1: def(0) then data_begin() (null table), new(cap 0) (no slot), new(cap 2) with junk memory"),
    ("copy construction/assignment of trivially copyable vectors was ill-formed", "C20,C09,C19", "probe cells 'copy constructor'/'copy assignment' for every trivially copyable list; the VaryingSize variant wrote the source's end marker"),
    ("allocator-extended constructor of an all-plain vector", "C20", "probe cell 'allocator-extended sized constructor' for P1..P4"),
    ("the element address table of vectors with a VaryingSize parameter was never deallocated", "C07", "V1: new(cap 1); destroy: one size_t block left in the ledger"),
    ("a default-constructed vector without VaryingSize parameter had element stride 0", "C18,C02", "P1/F3: def(0); rs(1); eb: write outside the (0 byte) block"),
    ("clear() of and assignment to a moved-from vector", "C09", "F3 pair: new; eb; mc(0,1); cl(0) / ca(1,0) / ma(1,0): SEGV"),
    ("move assignment freed the old block through the source's allocator", "C07,C08", "F1/PP pair: new(0); new(1, arena 1); ma(0,1): block of arena 1 deallocated through arena 0"),
    ("element copy assignment and allocator-extended move copied the unit count", "C12", "V1 elem: xr; xmc(0,1); xca(1,0) and xmc with another arena: values not copied"),
    ("a failing allocation in copy assignment left a dangling block pointer", "C17", "F1 pair: new(0,cap 0); new(1,cap 2); ca(1,0) with the 1st allocation failing: double free"),
    ("allocation failure for the address table called std::terminate", "C17", "V1: new / cc / ca / ma with the table allocation failing: SIGABRT from a noexcept constructor"),
    ("a failing allocation in copy assignment left destroyed elements counted", "C17", "F3 pair: new(0,fixed 1); eb; new(1,fixed 2); ca(1,0) failing: elements destroyed twice"),
    ("blocks were too small when a lower-aligned plain/FixedSize parameter follows", "C02", "layout family: 40 of 930 lists, e.g. <u8, VaryingSize<AlignAs<u16,4>>, FixedSize<u64>> counts (1),(1): 14 bytes used, 12 allocated"),
    ("vector operator== ignored the sizes on the element-wise path", "C13", "K9: [] == [(0|0)] was true, longer left operand over-read"),
    ("element operator== ignored differing span lengths", "C13", "K9: element with fixed size 1 == element with fixed size 2"),
    ("byte-wise comparison included alignment padding", "C13,C14", "K2 <u8, AlignAs<u8,4>>: equal elements/vectors in differently filled memory compared unequal, a < a"),
    ("vector == on the memcmp path ignored element count and fixed sizes", "C13", "K19 <FixedSize<u8>>: [(0)(0)] with fixed size 1 == [(0,0)] with fixed size 2; K20: (1,2) against (2,1) (side remark of the sub-agent that seeded C13-r3)"),
    ("vector < on the memcmp path ignored differing fixed sizes", "C14", "K19: [(0)(0)] (fixed size 1) < [(0,0)] (fixed size 2) was false although (0) < (0,0)"),
    ("element == compared several FixedSize parameters as one byte run", "C13", "K20 <FixedSize<u8>, FixedSize<u8>>: ([0],[0,0]) == ([0,0],[0]) between vectors with fixed sizes (1,2) and (2,1); K24 <FixedSize<u8>, u8, VaryingSize<u8>>: ([0],1,[0]) == ([0,1],0,[])"),
    ("a failing allocation in element copy assignment destroyed the contents twice", "C17,C06", "V3 elem, any allocator kind: new(cap 3); eb(count 1); eb(count 2); xr(0 <- v[0]); xr(1 <- v[1]); xca(1,0) with the 1st allocation failing: destructors run twice (first complete thorough run of C17)"),
    ("structured bindings of const, rvalue and copied elements were ill-formed", "C20", "probe cells 41-43 for every list and allocator kind: 'auto& [..] = const_element', 'const auto& [..] = element', 'auto&& [..] = std::move(element)', 'auto [..] = element' (side remark of the sub-agent that seeded C20-r3)"),
    ("move assignment from an unequal allocator into a moved-from vector wrote through a null block", "C09", "V1/NP pair: new(0,cap 2); mc(0,1); des(1); new(1,cap 2,arena 1); eb(1); ma(1,0): SEGV (six operations; side remark of the sub-agent that seeded C08-r4)"),
    ("after a failed copy assignment the vector reported a capacity it no longer had", "C17", "V1 pair (any allocator kind): new(0,cap 0); new(1,cap 2); ca(0,1) with the 1st allocation failing, then clear() and capacity() emplace_backs: SEGV (address table gone, capacity() still 2); F1/PP likewise (block gone)"),
    ("copy assignment between unequal propagating allocators released the block before allocating", "C17", "V3/PP pair: new(0,cap 0); new(1,cap 0,arena 1); ca(0,1) with the 1st allocation failing: block pointer null while data_end() still pointed into the released block"),
    ("a failed copy assignment left data_end() of the target pointing into a released block", "C17,C18", "V3 pair: new(0,cap 0); new(1,cap 0,budget 2); ca(1,0) with the 2nd allocation (address table) failing: size() == 0 but data_end() - data_begin() garbage; copying the vector passed it to memcpy (side remark of the sub-agent that seeded C17-r6)"),
    ("emplace_back memcpy'd sources whose conversion", "C15", "bool <- u8 (stored byte 02), Conv <- int (converting constructor skipped), int <- Src (conversion operator skipped)"),
    ("the vector iterators were not default constructible", "C20,C11", "probe cell 'iterator default construction' for every list"),
    ("structured bindings of a ContiguousElement did not compile", "C20", "probe cell 'structured bindings of an element' for every list with 2 or 3 parameters"),
    ("erase on non-trivial VaryingSize vectors placed the following elements unaligned", "C03", "V7 <AlignAs<size_t,8>, VaryingSize<Trk>, u8>: three elements; er(0): third element at address = 1 (mod 8)"),
    ("assigning to a moved-from ContiguousElement wrote through its stale pointers", "C12", "F3 elem: xr(0); xmc(0,1); xca(1,0): the assignment overwrote element 1's storage"),
    ("const_reference, const_iterator and const elements converted to their mutable counterparts", "C11", "constness cells: all 12 negative cells compiled (const_reference = x, reference{const_reference}, swap of const_references, iterator{const_iterator}, reference{const element}, ...)"),
    ("emplace_back memcpy'd from std::deque iterators across block boundaries", "C15", "emplace matrix, form 'std::deque::iterator across blocks' n=2: heap-buffer-overflow and wrong stored values for every memcpy-compatible type pair"),
    ("a default-initialised vector with FixedSize parameters had indeterminate fixed sizes", "C18", "F1: def(0) (`Vec v;` in junk-filled storage): get_fixed_size<0>() == 0xCDCD..."),
]


def main():
    log = subprocess.run(["git", "-C", "/repo", "log", "--reverse", "--format=%h %s"], stdout=subprocess.PIPE, text=True).stdout.splitlines()
    lines = []
    for entry in log:
        h, subj = entry.split(" ", 1)
        if not subj.startswith("fix: "):
            continue
        body = subj[5:]
        hit = [m for m in MAP if body.startswith(m[0])]
        if not hit:
            lines.append("# UNMAPPED fix commit %s %s" % (h, subj))
            continue
        for prop in hit[0][1].split(","):
            lines.append("fixed: property=%s %s %s [%s]" % (prop, h, body, hit[0][2]))
    path = os.path.join(ROOT, "known_findings.txt")
    text = open(path).read()
    marker = "# ---- repaired defects (generated by tools/gen_fixed.py) ----"
    if marker in text:
        text = text[:text.index(marker)]
    text = text.rstrip("\n") + "\n\n" + marker + "\n" + "\n".join(lines) + "\n"
    open(path, "w").write(text)
    print("%d fixed: lines written" % len([l for l in lines if l.startswith("fixed:")]))


if __name__ == "__main__":
    main()
