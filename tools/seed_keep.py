#!/usr/bin/env python3
"""seed_keep.py <name> <property> <scratch dir> <json meta>: stores a confirmed seeded change under /verif/seeded/<name>/"""
import json
import os
import shutil
import sys

name, prop, src, meta = sys.argv[1], sys.argv[2], sys.argv[3], json.loads(sys.argv[4])
dst = os.path.join(os.path.dirname(os.path.dirname(os.path.abspath(__file__))), "seeded", name)
os.makedirs(dst, exist_ok=True)
for f in ("patch.diff", "demo.cpp", "NOTES.md"):
    if os.path.exists(os.path.join(src, f)):
        shutil.copy(os.path.join(src, f), os.path.join(dst, f))
meta = dict({"property": prop, "origin": "fresh sub-agent given only the property text and a scratch worktree of /repo"}, **meta)
with open(os.path.join(dst, "meta.json"), "w") as fh:
    json.dump(meta, fh, indent=1)
print("kept", dst, os.listdir(dst))
