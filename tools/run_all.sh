#!/bin/bash
# usage: run_all.sh <tier> ["<ids>"]
# runs every check of one tier sequentially and prints the protocol lines; exit 1 if any check did not exit 0
tier=${1:-quick}
cd "$(dirname "$0")/.."
rc=0
ids=${2:-"01 02 03 04 05 06 07 08 09 10 11 12 13 14 15 16 17 18 19 20"}
for i in $ids; do
  s=$(date +%s)
  python3 verif.py check C$i --tier $tier > out/all_$tier.C$i.log 2>&1
  r=$?
  e=$(date +%s)
  echo "C$i exit=$r $((e-s))s $(grep -c '^VIOLATION' out/all_$tier.C$i.log) violations, $(grep -c '^KNOWN-FINDING' out/all_$tier.C$i.log) known | $(tail -1 out/all_$tier.C$i.log | cut -c1-150)"
  grep -A2 '^VIOLATION\|^INTERNAL' out/all_$tier.C$i.log | cut -c1-300 | head -30
  [ $r -ne 0 ] && rc=1
done
exit $rc
