#!/usr/bin/env python3
"""Writes /verif/MANIFEST.json from one table so that commands, levels and notes stay consistent."""
import json
import os

ROOT = os.path.dirname(os.path.dirname(os.path.abspath(__file__)))

BFS = ("explicit-state breadth-first search over operation histories executed on the real library code "
       "(in-process replay on fresh objects, canonical-state merging), compared step by step with a reference model")
CHECKS = {
    "C01": ("model_checking", "hist", BFS + "; oracle: std::vector-of-tuples model read through operator[], front/back, iterators, get<I>",
            "all histories of construction/emplace_back/pop_back/erase/clear/reserve up to depth 8 (8 primary lists) / 6 (the other 11 lists) in quick, depth 7 for all 19 lists x {AE, NP} x both block-base alignments in thorough, capacities <= 3 (4), varying counts <= 2 (3), zeroed and junk-filled memory; one known finding (K1) stops the exploration behind an overlapping element-wise relocation",
            "2.4, 3/C01"),
    "C02": ("model_checking", "layout+hist", "exhaustive enumeration of a generated family of parameter lists x every size distribution at exactly the declared capacity/budget, plus " + BFS + "; oracle: AddressSanitizer guard zones around exactly-sized allocator blocks and address-range checks",
            "layout family: 1410 lists in quick (all lists of <= 2 logical parameters over 10 (size, AlignAs) types + 480 three-parameter lists), 16638 in thorough (3 count types, every three-parameter list over 8 types, a four-parameter family) x all fixed sizes <= 3 x N <= 3 (4) x all count distributions <= 3 (count cells <= 8), both block-base alignments; history part: all 19 lists, depth 5-6",
            "3/C02"),
    "C03": ("model_checking", "layout+hist+pair+elem", "same enumerations as C02; oracle: address of every AlignAs object modulo A in every state (block bases aligned to exactly the storage alignment)",
            "alignments up to 16; reachable states of the bounded history/pair/element explorations", "3/C03"),
    "C04": ("model_checking", "layout+hist", "same enumerations as C02; oracle: field order, containment in [data_begin,data_end), disjointness, exact span counts, iterator.data()==reference.data_begin()",
            "as C02", "3/C04"),
    "C05": ("model_checking", "layout+hist+pair", "same enumerations as C02 for the packing clause (greedy layout model); two-vector BFS for the footprint clause with a differential bound (a fresh vector of the same capacity/budget is actually constructed)",
            "as C02; footprint clause over reserve/copy/move/assignment histories of depth <= 3 (thorough 4) for equal/unequal arenas; one known finding (K2)", "3/C05"),
    "C06": ("model_checking", "hist+pair+elem", BFS + "; oracle: live-object registry keyed by address inside instrumented value types (construct-on-live, use/destroy of dead objects, relocation without constructor, live set == logically held set, terminal emptiness)",
            "lists with tracked value types; bounded histories; known finding K1", "3/C06"),
    "C07": ("model_checking", "pair+elem", BFS + " over two vectors and up to three elements; oracle: allocator ledger (unknown/double/size-mismatched/foreign-arena deallocation, operator new by-passing the allocator) and an empty ledger after destroying everything, evaluated after every transition",
            "3 allocator kinds x 10 (thorough: 19) lists, depth 4-5", "3/C07"),
    "C08": ("model_checking", "pair+elem", BFS + " for every combination of the propagation traits; oracle: std::allocator_traits propagation table, block ownership by arena, foreign-arena deallocation",
            "6 (thorough: 10) trait combinations x equal/unequal arenas x lists {F3,V3} (thorough 5 lists), depth 5 (pair) / 3 (elements); exact count of move constructions for unequal-allocator move assignment", "3/C08"),
    "C09": ("model_checking", "pair", BFS + " over two vectors incl. moved-from operands, self-assignment, self-swap; oracle: two independent sequence models",
            "13 (thorough 19) lists x {AE, NP equal arenas, NP unequal arenas}(+PP), capacities <= 2 (3), depth 4-5", "3/C09"),
    "C10": ("model_checking", "hist(c10)", BFS + " with a rich reserve alphabet (n in {0,cap-1..cap+2} x 5 budgets, repeated reserve) followed by every fill of the reserved room; oracle: model unchanged, canonical state unchanged and no allocation when n <= capacity, capacity()==n otherwise, ASan on the fills",
            "10 (19) lists; base states from histories of depth <= 3-4", "3/C10"),
    "C11": ("model_checking", "proxy", BFS + " over reference assignment (copy/move/const), swap, iter_swap, writes through every access path, std::rotate/reverse/swap_ranges with all argument triples; oracle: the same algorithm on the model vector, all access paths read back after every step",
            "10 lists, vectors of <= 3 (4) equally shaped elements, depth 3 (4) beyond set-up; trivially swappable runs of 8..64 bytes (fixed sizes 6, 14, 30, ...); iterator algebra over all position pairs in every state; 12 negative + 1 positive compile-time constness cells per list", "3/C11"),
    "C12": ("model_checking", "elem", BFS + " over a pool of one vector and up to three ContiguousElements (construction from lvalue/rvalue/const references with/without allocator, copy/move construction incl. allocator-extended, copy/move assignment between different sizes, swap, element<->reference assignment, mutation, destruction)",
            "8 lists x {AE, NP equal/unequal}(+PP), element sizes 1..3 varying objects, depth 2-3 (3-4) beyond set-up", "3/C12"),
    "C13": ("model_checking", "cmp", "exhaustive operand enumeration: all element pairs x 10 operand-kind combinations x 2 memory environments; all pairs of 21 vectors x 8 right-hand variants (capacity, arena, allocator type, used/fresh memory, junk); oracle: field-wise equality of the model incl. sizes, symmetry, negation",
            "value domain {0,1,200} ({0,-0.0,1} for float), span lengths <= 2 (3), fixed sizes {1,2}; 10 (18) lists incl. padding between fields, padding between elements only, size-dependent padding", "3/C13"),
    "C14": ("model_checking", "cmp", "exhaustive operand enumeration as C13 plus all triples; oracle: order axioms, mutual consistency of the six operators, independence of operand kind/environment, vector < == lexicographical_compare under the implementation's own element <",
            "as C13; one known finding (K3)", "3/C14"),
    "C15": ("model_checking", "emplace", "exhaustive input-shape enumeration: stored type x source type x source form x length x {FixedSize, VaryingSize}; oracle: object representation of T(source item) computed independently, moved-from/untouched state of sources, dereference counts of single-pass sources",
            "15 (21) type pairs x up to 22 forms (incl. std::deque iterators across blocks) x lengths 0..3", "3/C15"),
    "C16": ("model_checking", "hist+pair", BFS + "; oracle: transition invariant on the absolute address of every stored object, data_begin(), capacity(), block identity and the allocator's allocation counter",
            "as C01 plus two-vector histories with swap and move construction", "3/C16"),
    "C17": ("fault_enumeration", "faults", "for every state of the bounded history/pair/element explorations and every operation, every allocation of that operation is made to throw in turn (1 injected failure); oracle: exception propagates (no terminate), ledger/registry clean after destroying all operands, source unchanged for reserve/copy construction",
            "lists {F1,F3,V1,V3} x {AE,NP}(+PP); depth 4 (5)", "3/C17"),
    "C18": ("model_checking", "hist(c18)", BFS + " with, at every empty state, the additional operations copy, copy-assign, swap with a fresh vector, all comparisons against empty vectors; oracle: size/empty/begin==end/data_begin==data_end pointing into or one past a live block or null; identical results under zeroed and junk-filled memory",
            "19 lists, capacities <= 2, depth 5 (7); default-INITIALISED vectors (`Vec v;`) in junk-filled storage", "3/C18"),
    "C19": ("model_checking", "footprint", "every state of a bounded history exploration x every const operation, executed with every load/store logged (gcc -fsanitize=thread instrumentation linked against own callbacks); const operations have no synchronisation, so all interleavings of any number of threads are equivalent iff no const operation writes shared memory - that footprint condition is decided exhaustively; plus a free-running 16-thread ThreadSanitizer cross-check",
            "11 (19) lists, states of depth <= 3 (5); accesses as instrumented by gcc", "3/C19"),
    "C20": ("exploration", "probe", "exhaustive enumeration of the finite matrix operation (45 cells) x parameter list (49) x allocator kind x language standard; each cell is one instantiation checked by the compiler (-fsyntax-only); there are no run-time states",
            "g++ 12 only; required cells derived from type traits", "3/C20"),
}

# bounds as built (vlib/*_checks.py are the authority; the evidence files report what each run covered)
NOTES = {
    "C01": "49 parameter lists (harness/lists.hpp). quick: all histories of construction/emplace_back/pop_back/erase/clear/reserve (incl. reserve with a smaller payload budget) up to depth 8 (8 primary lists) / 6 (the others), capacities <= 3, span lengths <= 2, plus runs with spans of 4-8 objects and fixed size 8 and wide runs (capacities 16/17 through the macro operation fill, depth 5; 33 in thorough); thorough: depth 7 for all lists x {AE, NP} x both block-base alignments, capacities <= 4, span lengths <= 3; value mismatches of the layout family (see C02) count too; known finding K1",
    "C02": "layout family: 1410 lists in quick (all lists of <= 2 logical parameters over 10 (size, AlignAs) types + 480 three-parameter lists; <= 3 elements, counts and fixed sizes 0..3, every count matrix with <= 8 cells), 8646 lists in thorough (3 count types, all three-parameter lists over 6 types, a four-parameter family; <= 4 elements, count matrices with <= 6 cells), exact and page-aligned block bases; history runs depth 5-6, wide runs (17 elements), long-run proxy runs (reference swap/assignment over runs of 258-508 bytes in exactly filled vectors); two-vector histories (NP, PP) depth 4; the emplace source-form matrix under ASan",
    "C03": "as C02 restricted to lists with AlignAs (alignments up to 16); two-vector and element histories (NP) for relocated blocks",
    "C04": "as C02; two-vector histories between vectors with different fixed sizes (depth 4) and element histories (depth 2-3), incl. elements of equal byte size and different span lengths; iterator objects re-assigned after every operation denote the same objects as operator[]",
    "C05": "as C02 for the packing clause; footprint clause over reserve/copy/move/assignment histories of depth 5 (AE, NP; equal/unequal arenas); one known finding (K2)",
    "C06": "20 lists with instrumented value types (Trk, TrkM, Cpy, Asg next to Trk) depth 6-7, 6 trivial lists depth 6 (clobbered values), two-vector histories depth 4-5, element histories depth 2-3, two-vector runs with every allocation failing in turn; thorough: depth 6 / 5 / 3 for all of them x {AE,NP,PP}; known finding K1",
    "C07": "3 allocator kinds (+ NPS: select_on_container_copy_construction; thorough + T100, T010, T001) x 10 lists (thorough: all 49), two-vector depth 4-5, elements depth 2-3",
    "C08": "6 trait combinations (thorough: all 8 + AE + NP with select_on_container_copy_construction) x equal/unequal arenas x lists {F3,V3} (thorough 5 lists), depth 5 (pair) / 3-4 (elements); exact count of move constructions for unequal-allocator move assignment",
    "C09": "17 lists (thorough all 49) x {AE, NP equal arenas, NP unequal arenas, PP}, capacities <= 2 (3), depth 4-5 (6 for two lists with unequal arenas), wide two-vector runs (17 elements); value types include std::string and a type that is trivially copy constructible but not trivially copyable; consequences of K1 are listed as known",
    "C10": "10 (thorough 49) lists; base states from histories of depth <= 3-4; big-span runs; runs with a failing reserve (fail(k)) followed by fills",
    "C11": "10 lists, vectors of <= 3 (4) equally shaped elements, depth 3 (4) beyond set-up; trivially swappable runs of 8..64 bytes (fixed sizes 6, 14, 30, ...); iterator algebra over all position pairs in every state; iterator objects kept across every operation and re-assigned afterwards in single- and two-vector histories (depth 4-5); long-run proxy runs (258-508 bytes); 12 negative + 1 positive compile-time constness cells",
    "C12": "9 lists x {AE, NP equal/unequal}, {F3,V1,V3} x {PP, T100}, lists with equal-size elements of different span lengths and lists without any trivially copy constructible parameter; element sizes 1..3 varying objects, depth 3-4 beyond set-up (thorough: 8 lists x 5 allocator kinds, depth 4)",
    "C13": "value domain {0,1,200} ({0,-0.0,1} for float), span lengths <= 2 (3), fixed sizes {1,2} and operands with DIFFERENT fixed sizes (1/2, 2/1, 1/3, (1,2)/(2,1)) at vector and element level; right-hand operands in 5 environments (capacity, arena, used memory, junk, last element appended and popped again); 20 (27) lists incl. char / signed char lists, padding between fields, padding between elements only, size-dependent padding, FixedSize-only lists, FixedSize enclosed by plain parameters, FixedSize next to VaryingSize",
    "C14": "as C13 (for operands with different fixed sizes: differential oracle std::lexicographical_compare over the real references and the model-free axioms); one known finding (K3)",
    "C15": "16 (22) type pairs x up to 31 forms (incl. std::deque iterators across blocks, reverse iterators over contiguous storage, a stride-2 pointer iterator, move_iterator<reverse_iterator>, genuinely single-pass stream ranges) x lengths 0..3",
    "C16": "as C01 plus two-vector histories with swap and move construction for AE, NP, PP and trait kinds whose swap and move traits disagree (T001, T101, T010; thorough all eight); swap must exchange block, capacity() and memory_consumption()",
    "C17": "lists {F1,F3,V1,V3} (thorough 8 lists) x {AE,NP,PP} and {F1,V1} x {T100,T010} (thorough + T001, T110): two-vector histories depth 4 (5), element histories depth 3 (4), every allocation of every operation failed in turn, operands with unspecified contents are probed (data_begin()/data_end() describe them, they can be copied, clear, capacity() emplace_backs), assigned to and destroyed; plus fail(k), k <= 2, as an operation of the alphabet in front of reserve / copy construction / construction with exploration beyond the failure (depth 4-5, thorough 5-6)",
    "C18": "49 lists, capacities <= 2, depth 5 (7), default-INITIALISED vectors (`Vec v;`) in junk-filled storage; two-vector histories with empty/default-constructed operands (NP, AE; PP in thorough) depth 3 (4)",
    "C19": "11 (thorough 49) lists, states of depth <= 3 (5); const operations on the shared vector and on a shared element, copies whose k-th value copy throws, an allocator with select_on_container_copy_construction; accesses as instrumented by gcc",
    "C20": "45 cells x 49 lists x allocator kinds {AE,NP,PP,XNP} (XNP: explicit converting constructor; thorough: all eight trait combinations, NPS, XPP) x {c++17, c++20}; g++ 12 only; required cells derived from type traits",
}

ENGINES = [
    ("hist/pair/elem/proxy/faults", "harness/engine.cpp", ["C01", "C02", "C03", "C04", "C05", "C06", "C07", "C08", "C09", "C10", "C11", "C12", "C16", "C17", "C18"],
     "explicit-state BFS over the real library (one binary per parameter list x allocator kind), in-process replay, supervised sub-workers, AddressSanitizer, ledger allocator, tracked value types"),
    ("layout", "harness/layout.cpp", ["C02", "C03", "C04", "C05"], "exhaustive enumeration of a generated parameter-list family x all size distributions"),
    ("cmp", "harness/cmp.cpp", ["C13", "C14"], "exhaustive operand pairs/triples for all comparison operators"),
    ("emplace", "harness/emplace.cpp", ["C15"], "exhaustive source-form matrix for emplace_back"),
    ("footprint", "harness/engine.cpp + harness/env/tsan_rt.cpp + harness/readers_tsan.cpp", ["C19"], "access-footprint check of const operations with own TSan callbacks + genuine TSan cross-check"),
    ("probe", "harness/probe.cpp", ["C20"], "compile-time cell matrix"),
]


def main():
    checks = []
    for pid in sorted(CHECKS):
        cat, engine, tech, note, ref = CHECKS[pid]
        checks.append({
            "property_id": pid,
            "quick_cmd": "python3 verif.py check %s --tier quick" % pid,
            "thorough_cmd": "python3 verif.py check %s --tier thorough" % pid,
            "evidence_file": "evidence/%s.json" % pid,
            "replay_cmd_template": "python3 verif.py replay {path}",
            "engine": engine,
            "level_claimed": {"category": cat, "text": tech, "design_ref": "DESIGN.md section " + ref},
            "level_note": "bounds: " + NOTES.get(pid, note) + ". Trusted base: g++ 12, AddressSanitizer/own TSan callbacks, the harness allocator and value types, the reference models in harness/engine.hpp; results hold for the enumerated bounded domain only.",
            "technique": "bounded exhaustive enumeration (model checking of the implementation): " + tech.split(";")[0],
        })
    m = {
        "version": 1,
        "setup_cmd": "python3 verif.py setup",
        "hooks": {
            "guard": "CNTGS_VERIF",
            "enable": "no source hooks are needed: the harness instantiates the library templates with its own allocator and value types and uses the public API only",
            "baseline_off_cmd": "cmake --build /repo/_build -- -k 0 ; ctest --test-dir /repo/_build -j8 --timeout 900",
            "source_commits": [],
            "add_only": True,
        },
        "engines": [{"name": n, "path": p, "serves_properties": s, "kind_free_text": k} for n, p, s, k in ENGINES],
        "checks": checks,
        "notes": "Every check rebuilds its harness from /repo/src/cntgs (build cache keyed by the hash of the sources) and re-runs the exploration. "
                 "Known findings and repaired defects: known_findings.txt; design and results: DESIGN.md.",
        "not_applicable": [],
    }
    with open(os.path.join(ROOT, "MANIFEST.json"), "w") as fh:
        json.dump(m, fh, indent=1)
    print("MANIFEST.json written: %d checks" % len(checks))


if __name__ == "__main__":
    main()
