#!/bin/bash
# seed_regress.sh [names...]: for every kept seeded change apply patch.diff to a scratch worktree of the current
# /repo HEAD, run the quick check of the property it breaks and report whether the check raises an alarm.
cd /verif
names=${@:-$(ls seeded)}
for n in $names; do
  prop=$(python3 -c "import json;print(json.load(open('seeded/$n/meta.json'))['property'])")
  wt=/tmp/regresswt_$n
  git -C /repo worktree remove --force $wt > /dev/null 2>&1
  git -C /repo worktree add -q $wt HEAD
  if ! git -C $wt apply /verif/seeded/$n/patch.diff 2>/dev/null; then echo "$n: PATCH DOES NOT APPLY"; git -C /repo worktree remove --force $wt; continue; fi
  out=$(VERIF_REPO=$wt python3 verif.py check $prop 2>&1); rc=$?
  nv=$(echo "$out" | grep -c '^VIOLATION')
  first=$(echo "$out" | grep -m1 'signature:' | cut -c1-140)
  if [ $rc -eq 1 ] && [ $nv -gt 0 ]; then echo "$n: DETECTED by $prop quick ($nv violations) $first"; else echo "$n: NOT DETECTED by $prop quick (exit $rc) $(echo "$out" | tail -1 | cut -c1-120)"; fi
  git -C /repo worktree remove --force $wt
done
