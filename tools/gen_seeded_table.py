#!/usr/bin/env python3
"""Regenerates the table of seeded changes in DESIGN.md from seeded/*/meta.json"""
import glob
import json
import os

ROOT = os.path.dirname(os.path.dirname(os.path.abspath(__file__)))
rows = ["| seeded change | property | needs to manifest | reported by | not reported by |", "|---|---|---|---|---|"]
for m in sorted(glob.glob(os.path.join(ROOT, "seeded", "*", "meta.json"))):
    d = json.load(open(m))
    name = os.path.basename(os.path.dirname(m))
    caught = "; ".join("%s: %s" % (k, v.split(" (")[0][:110]) for k, v in d.get("caught_by", {}).items()) or "-"
    missed = "; ".join("%s (%s)" % (k, v[:60]) for k, v in d.get("not_caught_by", {}).items()) or "-"
    rows.append("| `%s` | %s | %s | %s | %s |" % (name, d["property"], d.get("needs", "")[:200], caught, missed))
table = "<!-- seeded-table-begin -->\n" + "\n".join(rows) + "\n<!-- seeded-table-end -->"
p = os.path.join(ROOT, "DESIGN.md")
s = open(p).read()
if "<<SEEDED-TABLE>>" in s:
    s = s.replace("<<SEEDED-TABLE>>", table)
else:
    a = s.index("<!-- seeded-table-begin -->")
    b = s.index("<!-- seeded-table-end -->") + len("<!-- seeded-table-end -->")
    s = s[:a] + table + s[b:]
open(p, "w").write(s)
print("%d seeded changes in the table" % (len(rows) - 2))
