#!/bin/bash
# seed_eval.sh <property id> <scratch worktree with patch.diff and demo.cpp> [checks...]
# 1. confirms the sub-agent's claims in the scratch worktree (tests still pass, demo fails only with the change)
# 2. runs the given checks (default: the property's quick check) with VERIF_REPO pointing at the scratch tree
set -u
pid=$1; dir=$2; shift; shift
checks=${@:-$pid}
cd "$dir" || exit 2
echo "== patch"; git diff --stat -- src | tail -3
echo "== existing tests with the change"
cmake -G Ninja -B _build -S . -DCMAKE_BUILD_TYPE=RelWithDebInfo -DCNTGS_BUILD_TESTS=ON -DCNTGS_DISCOVER_TESTS=ON > /dev/null 2>&1
cmake --build _build -- -k 0 > build.log 2>&1
ctest --test-dir _build -j8 --timeout 900 2>&1 | grep -E "tests passed|Failed|Not Run" | head -8
flags="-std=c++17 -I src"
grep -q "fsanitize" NOTES.md 2>/dev/null && flags="$flags -g -fsanitize=address"
echo "== demo with the change ($flags)"
g++ $flags demo.cpp -o demo_with 2>&1 | grep -E "error" | head -3
ASAN_OPTIONS=detect_leaks=0 ./demo_with > demo_with.log 2>&1; echo "exit=$?"; tail -2 demo_with.log | cut -c1-200
echo "== demo without the change"
git diff -- src > .seed_eval_patch.diff; git apply -R .seed_eval_patch.diff
g++ $flags demo.cpp -o demo_without 2>&1 | grep -E "error" | head -3
ASAN_OPTIONS=detect_leaks=0 ./demo_without > demo_without.log 2>&1; echo "exit=$?"; tail -2 demo_without.log | cut -c1-200
git apply .seed_eval_patch.diff; rm -f .seed_eval_patch.diff
# the checks run against the CURRENT /repo HEAD plus the patch (the scratch worktree may be based on an older HEAD)
wt=/tmp/evalwt_$pid
git -C /repo worktree remove --force $wt > /dev/null 2>&1
git -C /repo worktree add -q $wt HEAD
if ! git -C $wt apply "$dir/patch.diff"; then echo "PATCH DOES NOT APPLY to the current HEAD"; fi
for c in $checks; do
  echo "== verif check $c against current HEAD + patch"
  (cd /verif && VERIF_REPO=$wt python3 verif.py check $c 2>&1 | grep -E "^VIOLATION|signature|^C[0-9]+ quick|INTERNAL|KNOWN" | cut -c1-260 | head -12)
done
git -C /repo worktree remove --force $wt
