#!/usr/bin/env python3
"""CLI: verif.py check <id> --tier quick|thorough | replay <file> | setup"""
import argparse
import json
import os
import subprocess
import sys

sys.path.insert(0, os.path.dirname(os.path.abspath(__file__)))
from vlib import common as C  # noqa: E402
from vlib import engine_checks  # noqa: E402
from vlib import cmp_checks  # noqa: E402
from vlib import emplace_checks  # noqa: E402
from vlib import footprint_checks  # noqa: E402
from vlib import probe_checks  # noqa: E402

ENGINE_PROPS = set(engine_checks.LEVEL)


def cmd_check(args):
    prop = args.property
    tier = os.environ.get("VERIF_TIER", args.tier)
    if prop in ENGINE_PROPS:
        return engine_checks.run_check(prop, tier)
    if prop in ("C13", "C14"):
        return cmp_checks.run_check(prop, tier)
    if prop == "C15":
        return emplace_checks.run_check(prop, tier)
    if prop == "C19":
        return footprint_checks.run_check(prop, tier)
    if prop == "C20":
        return probe_checks.run_check(prop, tier)
    print("no check registered for %s" % prop)
    return 2


def cmd_replay(args):
    d = json.load(open(args.file))
    if d.get("engine") == "engine.cpp":
        r = d["run"]
        builds = C.build_many(engine_checks.binary_jobs([r]))
        path = builds["eng_%s_%s" % (r["list"], r["alloc"])][0]
        argv = engine_checks.engine_argv(path, r, d["property"], "/dev/null", 1, 60) + ["--replay", d["history"]] + \
            (["--fail-at", str(d["fail_at"])] if d.get("fail_at") else [])
        env = dict(os.environ)
        env["ASAN_OPTIONS"] = C.ASAN_ENV.replace("symbolize=0", "symbolize=1")
        rc = 0
        for i in range(2):  # every violation is replayed twice: same schedule, same observations
            p = subprocess.run(argv, env=env, stdout=subprocess.PIPE, stderr=subprocess.PIPE, text=True)
            if i == 0:
                first = p.stdout
                sys.stdout.write(p.stdout)
                sys.stderr.write(p.stderr[-3000:])
            elif p.stdout != first:
                print("REPLAY-NONDETERMINISM: second replay differs from the first")
                return 2
            rc = p.returncode
        return rc
    print("unknown replay format")
    return 2


def cmd_export_test(args):
    """print a plain C++ test (no explorer, no forks) that performs the recorded operations and asserts the monitors"""
    d = json.load(open(args.file))
    if d.get("engine") != "engine.cpp":
        print("// only history replays can be exported")
        return 2
    r = d["run"]
    ops = []
    for tok in d["history"].split(";"):
        name, rest = tok.split("(", 1)
        a = [x for x in rest.rstrip(")").split(",") if x != ""]
        ops.append("hx::mk(hx::O_%s%s)" % ({"er": "ER1", "err": "ER2"}.get(name, name.upper()), "".join(", " + x for x in a)))
    print("""// %s
// %s
// build: g++ -std=c++17 -O1 -g -fsanitize=address -I%s -I%s -DCFG_LIST=%s -DCFG_ALLOC=%s this_file.cpp && ./a.out
#include "engine.hpp"
#include <cassert>
#include <cstdio>
int main()
{
    using Eng = hx::Engine<hx::L_%s, hx::A_%s>;
    env::L().junk = %d;
    env::L().base = %d;
    Eng e;
    e.prm.mode = "%s";
    e.prm.nmax = %d; e.prm.cmax = %d; e.prm.bmax = %d; e.prm.arena1 = %d;
    const hx::Op ops[] = {%s};
    for (const auto& o : ops)
    {
        auto pre = e.snapshot(o.k == hx::O_RS);
        e.apply(o);
        e.transition_monitors(pre, o);
        e.inspect();
        for (auto& v : env::viols()) std::printf("after %%s: [%%s] %%s|%%s: %%s\\n", hx::op_str(o).c_str(), v.props.c_str(), v.monitor.c_str(), v.discr.c_str(), v.msg.c_str());
    }
    assert(env::viols().empty() && "the monitors must stay silent");
    return 0;
}""" % (d["signature"], d.get("message", ""), C.SRC, C.HARNESS, r["list"], r["alloc"], r["list"], r["alloc"], r["junk"], r["base"],
         r["mode"], r["nmax"], r["cmax"], r["bmax"], r["arena1"], ", ".join(ops)))
    return 0


def cmd_setup(args):
    """create the work directories and warm the build cache for the current tree (quick tier binaries)"""
    import concurrent.futures as cf
    import time
    from vlib import layout_checks, footprint_checks, cmp_checks, emplace_checks, probe_checks
    t0 = time.time()
    for d in (C.BUILD, C.OUT, C.EVIDENCE, os.path.join(C.OUT, "tmp"), os.path.join(C.OUT, "runs")):
        os.makedirs(d, exist_ok=True)
    jobs = {}
    for prop in sorted(ENGINE_PROPS):
        for j in engine_checks.binary_jobs(engine_checks.spec(prop, "quick")):
            jobs[j[2]] = j
    for l in cmp_checks.QUICK:
        jobs["cmp_%s" % l] = ("cmp.cpp", ["CFG_LIST=%s" % l], "cmp_%s" % l)
    for k in emplace_checks.QUICK:
        jobs["emp_%d" % k] = ("emplace.cpp", ["CFG_PAIR=%d" % k], "emp_%d" % k)
    lists = layout_checks.family("quick")
    import hashlib, json as _json
    tag = hashlib.sha256(_json.dumps(lists).encode()).hexdigest()[:10]
    for k, path, n in layout_checks.gen_tus(lists, 48, tag):
        jobs["layout_%s_%d" % (tag, k)] = ("layout.cpp", ["LAYOUT_INC=%s" % path], "layout_%s_%d" % (tag, k), layout_checks.LAYOUT_FLAGS)
    res = C.build_many(list(jobs.values()))
    bad = [n for n, (path, dis, log) in res.items() if path is None]
    rt, _ = footprint_checks.build_rt()
    with cf.ThreadPoolExecutor(max_workers=C.NCPU) as ex:
        futs = [ex.submit(footprint_checks.build_foot, l, "AE", rt) for l in ["P1", "P3", "F1", "F2", "F3", "V1", "V2", "V3", "V5", "M1", "M2"]]
        futs.append(ex.submit(footprint_checks.build_readers))
        futs += [ex.submit(probe_checks.cell_table, l) for l in engine_checks.ALL_LISTS]
        for f in futs:
            f.result()
    print("setup: %d harness binaries built in %.0fs%s" % (len(res), time.time() - t0, (", NOT built: %s" % bad) if bad else ""))
    return 0


def main():
    ap = argparse.ArgumentParser()
    sub = ap.add_subparsers(dest="cmd", required=True)
    c = sub.add_parser("check")
    c.add_argument("property")
    c.add_argument("--tier", default="quick", choices=["quick", "thorough"])
    c.set_defaults(fn=cmd_check)
    r = sub.add_parser("replay")
    r.add_argument("file")
    r.set_defaults(fn=cmd_replay)
    s = sub.add_parser("setup")
    s.set_defaults(fn=cmd_setup)
    x = sub.add_parser("export-test")
    x.add_argument("file")
    x.set_defaults(fn=cmd_export_test)
    args = ap.parse_args()
    sys.exit(args.fn(args))


if __name__ == "__main__":
    main()
