#!/bin/bash
# scratch build helper: b.sh LIST ALLOC
set -e
g++ -std=c++17 -O1 -g -DNDEBUG -fsanitize=address -fsanitize-recover=address -fno-omit-frame-pointer -I/repo/src -I/verif/harness -DCFG_LIST=$1 -DCFG_ALLOC=$2 /verif/harness/engine.cpp -o /verif/build/eng_$1_$2 2>&1 | grep -E "error" | head -20
