#!/bin/bash
# scratch: build footprint variant fb.sh LIST ALLOC
g++ -std=c++17 -O1 -g -DNDEBUG -fsanitize=thread -DHX_FOOTPRINT -fno-omit-frame-pointer -I/repo/src -I/verif/harness -DCFG_LIST=$1 -DCFG_ALLOC=$2 -c /verif/harness/engine.cpp -o /verif/build/foot_$1_$2.o 2>&1 | grep -E "error" | head; g++ /verif/build/foot_$1_$2.o /verif/build/tsan_rt.o -o /verif/build/foot_$1_$2 -lpthread 2>&1 | grep -E "undefined|error" | head
