// Own "ThreadSanitizer runtime" for the footprint engine (C19): the harness translation unit is compiled with
// gcc -fsanitize=thread (instrumentation only) and linked against these callbacks instead of libtsan. Every
// read and write of the instrumented code - the library's templates included - is appended to a log while
// recording is on. This file itself is compiled WITHOUT instrumentation and without builtin expansion.
#include <cstddef>
#include <cstdint>

extern "C" {
struct HxAccess
{
    uintptr_t addr;
    uint32_t size;
    uint32_t write;
};
static const size_t HX_LOG_MAX = 1u << 20;
static HxAccess g_log[HX_LOG_MAX];
static size_t g_n = 0;
static int g_recording = 0;
static unsigned g_atomics = 0, g_overflow = 0;
static const int* g_suppress = nullptr;  // points to the harness' "inside harness code" depth counter

void hx_fp_set_suppress(const int* p) { g_suppress = p; }
void hx_fp_begin()
{
    g_n = 0;
    g_atomics = 0;
    g_overflow = 0;
    g_recording = 1;
}
void hx_fp_end() { g_recording = 0; }
const HxAccess* hx_fp_log(size_t* n)
{
    *n = g_n;
    return g_log;
}
unsigned hx_fp_atomics() { return g_atomics; }
unsigned hx_fp_overflow() { return g_overflow; }

static inline void rec(const void* a, size_t size, int write)
{
    if (!g_recording) return;
    if (g_suppress && *g_suppress) return;
    if (g_n >= HX_LOG_MAX)
    {
        ++g_overflow;
        return;
    }
    g_log[g_n].addr = reinterpret_cast<uintptr_t>(a);
    g_log[g_n].size = static_cast<uint32_t>(size);
    g_log[g_n].write = static_cast<uint32_t>(write);
    ++g_n;
}

void __tsan_init() {}
void __tsan_func_entry(void*) {}
void __tsan_func_exit() {}
void __tsan_read1(void* a) { rec(a, 1, 0); }
void __tsan_read2(void* a) { rec(a, 2, 0); }
void __tsan_read4(void* a) { rec(a, 4, 0); }
void __tsan_read8(void* a) { rec(a, 8, 0); }
void __tsan_read16(void* a) { rec(a, 16, 0); }
void __tsan_write1(void* a) { rec(a, 1, 1); }
void __tsan_write2(void* a) { rec(a, 2, 1); }
void __tsan_write4(void* a) { rec(a, 4, 1); }
void __tsan_write8(void* a) { rec(a, 8, 1); }
void __tsan_write16(void* a) { rec(a, 16, 1); }
void __tsan_unaligned_read2(void* a) { rec(a, 2, 0); }
void __tsan_unaligned_read4(void* a) { rec(a, 4, 0); }
void __tsan_unaligned_read8(void* a) { rec(a, 8, 0); }
void __tsan_unaligned_read16(void* a) { rec(a, 16, 0); }
void __tsan_unaligned_write2(void* a) { rec(a, 2, 1); }
void __tsan_unaligned_write4(void* a) { rec(a, 4, 1); }
void __tsan_unaligned_write8(void* a) { rec(a, 8, 1); }
void __tsan_unaligned_write16(void* a) { rec(a, 16, 1); }
void __tsan_read_range(void* a, size_t n) { rec(a, n, 0); }
void __tsan_write_range(void* a, size_t n) { rec(a, n, 1); }
void __tsan_vptr_update(void** a, void*) { rec(a, 8, 1); }
void __tsan_vptr_read(void** a) { rec(a, 8, 0); }

// atomics: only counted (if any appears the footprint argument does not apply)
#define HX_ATOMIC_LOAD(N, T) \
    T __tsan_atomic##N##_load(const volatile T* a, int) { ++g_atomics; return *a; }
#define HX_ATOMIC_STORE(N, T) \
    void __tsan_atomic##N##_store(volatile T* a, T v, int) { ++g_atomics; *a = v; }
#define HX_ATOMIC_RMW(N, T, NAME, OP) \
    T __tsan_atomic##N##_##NAME(volatile T* a, T v, int) { ++g_atomics; T old = *a; *a = OP; return old; }
#define HX_ATOMIC_ALL(N, T)                               \
    HX_ATOMIC_LOAD(N, T)                                  \
    HX_ATOMIC_STORE(N, T)                                 \
    HX_ATOMIC_RMW(N, T, exchange, v)                      \
    HX_ATOMIC_RMW(N, T, fetch_add, static_cast<T>(old + v)) \
    HX_ATOMIC_RMW(N, T, fetch_sub, static_cast<T>(old - v)) \
    HX_ATOMIC_RMW(N, T, fetch_and, static_cast<T>(old & v)) \
    HX_ATOMIC_RMW(N, T, fetch_or, static_cast<T>(old | v))  \
    HX_ATOMIC_RMW(N, T, fetch_xor, static_cast<T>(old ^ v)) \
    int __tsan_atomic##N##_compare_exchange_strong(volatile T* a, T* c, T v, int, int) \
    {                                                     \
        ++g_atomics;                                      \
        if (*a == *c) { *a = v; return 1; }               \
        *c = *a;                                          \
        return 0;                                         \
    }                                                     \
    int __tsan_atomic##N##_compare_exchange_weak(volatile T* a, T* c, T v, int, int) \
    {                                                     \
        ++g_atomics;                                      \
        if (*a == *c) { *a = v; return 1; }               \
        *c = *a;                                          \
        return 0;                                         \
    }
HX_ATOMIC_ALL(8, unsigned char)
HX_ATOMIC_ALL(16, unsigned short)
HX_ATOMIC_ALL(32, unsigned int)
HX_ATOMIC_ALL(64, unsigned long)
void __tsan_atomic_thread_fence(int) { ++g_atomics; }
void __tsan_atomic_signal_fence(int) { ++g_atomics; }

// memory functions called from instrumented code: log the ranges, then do the work without libc
void* memcpy(void* d, const void* s, size_t n)
{
    rec(s, n, 0);
    rec(d, n, 1);
    void* r = d;
    __asm__ volatile("rep movsb" : "+D"(d), "+S"(s), "+c"(n) : : "memory");
    return r;
}
void* memmove(void* d, const void* s, size_t n)
{
    rec(s, n, 0);
    rec(d, n, 1);
    unsigned char* dd = static_cast<unsigned char*>(d);
    const unsigned char* ss = static_cast<const unsigned char*>(s);
    if (dd == ss || n == 0) return d;
    if (dd < ss || dd >= ss + n)
    {
        void* dp = d;
        __asm__ volatile("rep movsb" : "+D"(dp), "+S"(s), "+c"(n) : : "memory");
    }
    else
    {
        for (size_t i = n; i-- > 0;)
        {
            volatile unsigned char c = ss[i];
            const_cast<volatile unsigned char*>(dd)[i] = c;
        }
    }
    return d;
}
void* memset(void* d, int c, size_t n)
{
    rec(d, n, 1);
    void* r = d;
    __asm__ volatile("rep stosb" : "+D"(d), "+c"(n) : "a"(c) : "memory");
    return r;
}
int memcmp(const void* a, const void* b, size_t n)
{
    rec(a, n, 0);
    rec(b, n, 0);
    const volatile unsigned char* x = static_cast<const volatile unsigned char*>(a);
    const volatile unsigned char* y = static_cast<const volatile unsigned char*>(b);
    for (size_t i = 0; i < n; ++i)
    {
        const unsigned char p = x[i], q = y[i];
        if (p != q) return p < q ? -1 : 1;
    }
    return 0;
}

// AddressSanitizer interface used by the ledger allocator: no-ops in this build
void __asan_poison_memory_region(void const volatile*, size_t) {}
void __asan_unpoison_memory_region(void const volatile*, size_t) {}
void __asan_set_error_report_callback(void (*)(const char*)) {}
}
