// Ledger allocator: the only allocator the library ever sees. It owns the environment answers
// (what fresh memory contains, how far a block base is aligned, whether an allocation throws) and
// records every block so that leaks, double frees, wrong sizes and foreign-allocator frees are visible.
#pragma once
#include "report.hpp"

#include <sanitizer/asan_interface.h>

#include <cstddef>
#include <cstdint>
#include <cstdlib>
#include <cstring>
#include <map>
#include <new>
#include <type_traits>

namespace env
{
enum JunkMode
{
    JUNK_ZERO = 0,     // what the tests implicitly get
    JUNK_PATTERN = 1,  // byte = f(offset), high bit set
    JUNK_DISTINCT = 2  // byte = f(serial, offset): differs between allocations
};
enum BaseMode
{
    BASE_EXACT = 0,  // block base aligned to exactly alignof(value_type) and no more
    BASE_PAGE = 1    // block base page aligned
};

struct Block
{
    uintptr_t p;
    size_t bytes;
    size_t elem_size;
    int arena;
    unsigned serial;
    unsigned born_op;  // value of Ledger::op_serial at allocation
    bool live;
    unsigned char* canary_begin;  // [canary_begin, p) are unpoisoned guard bytes (ASan granule restriction)
    unsigned char* raw;
    size_t rawsz;
};

struct LedgerState
{
    std::map<uintptr_t, Block> blocks;  // every block ever handed out (dead ones stay, memory is never reused)
    unsigned serial = 0;
    unsigned op_serial = 0;
    unsigned allocs_this_op = 0;
    unsigned deallocs_this_op = 0;
    size_t bytes_this_op = 0;
    int fail_at = 0;  // the fail_at-th allocation of the current op throws std::bad_alloc (0 = never)
    int fail_at2 = 0; // a second one (counted over the same op counter)
    unsigned faults_thrown = 0;
    int junk = JUNK_ZERO;
    int base = BASE_EXACT;
    bool in_lib = false;       // a library call is executing
    int harness_depth = 0;     // >0: harness code running inside a library call (registry bookkeeping)
    unsigned foreign_new = 0;  // operator new reached from library code, bypassing the allocator
};

inline LedgerState& L()
{
    static LedgerState s;
    return s;
}

// forget everything (between two in-process executions); the environment answers (junk, base) stay
inline void reset_ledger()
{
    auto& l = L();
    for (auto& kv : l.blocks)
    {
        __asan_unpoison_memory_region(kv.second.raw, kv.second.rawsz);
        std::free(kv.second.raw);
    }
    l.blocks.clear();
    l.serial = l.op_serial = l.allocs_this_op = l.deallocs_this_op = 0;
    l.bytes_this_op = 0;
    l.fail_at = l.fail_at2 = 0;
    l.faults_thrown = 0;
    l.in_lib = false;
    l.harness_depth = 0;
    l.foreign_new = 0;
}

struct HarnessScope
{
    HarnessScope() { ++L().harness_depth; }
    ~HarnessScope() { --L().harness_depth; }
};

inline void begin_op()
{
    auto& l = L();
    ++l.op_serial;
    l.allocs_this_op = l.deallocs_this_op = 0;
    l.bytes_this_op = 0;
}

static constexpr unsigned char CANARY = 0xCB;

inline unsigned char junk_byte(int mode, unsigned serial, size_t off)
{
    switch (mode)
    {
        case JUNK_PATTERN:
            return static_cast<unsigned char>(0x80u | ((off * 37u + 11u) & 0x7fu));
        case JUNK_DISTINCT:
            return static_cast<unsigned char>(0x80u | ((off * 37u + serial * 101u + 11u) & 0x7fu));
        default:
            return 0;
    }
}

inline void* ledger_allocate(size_t n, size_t esz, size_t align, int arena)
{
    HarnessScope hs;
    auto& l = L();
    ++l.allocs_this_op;
    if ((l.fail_at && static_cast<int>(l.allocs_this_op) == l.fail_at) ||
        (l.fail_at2 && static_cast<int>(l.allocs_this_op) == l.fail_at2))
    {
        ++l.faults_thrown;
        throw std::bad_alloc();
    }
    const size_t bytes = n * esz;
    l.bytes_this_op += bytes;
    const size_t A = align;
    size_t slack, rawsz;
    unsigned char* raw;
    uintptr_t p;
    if (l.base == BASE_PAGE)
    {
        slack = 4096 + 64;
        rawsz = bytes + 2 * slack;
        raw = static_cast<unsigned char*>(std::malloc(rawsz));
        p = (reinterpret_cast<uintptr_t>(raw) + 64 + 4095) / 4096 * 4096;
    }
    else
    {
        slack = 2 * A + 64;
        rawsz = bytes + 2 * slack;
        raw = static_cast<unsigned char*>(std::malloc(rawsz));
        p = (reinterpret_cast<uintptr_t>(raw) + 32 + 2 * A - 1) / (2 * A) * (2 * A) + A;  // p == A (mod 2A)
    }
    auto* pb = reinterpret_cast<unsigned char*>(p);
    // the guard zones get a fixed content too: an out-of-bounds READ (reported by ASan, execution continues in
    // recover mode) must return the same bytes in every process, or replays of a buggy history would diverge
    std::memset(raw, 0xEE, rawsz);
    for (size_t i = 0; i < bytes; ++i) pb[i] = junk_byte(l.junk, l.serial, i);
    // left guard: poison up to the 8-byte granule containing p, canary for the rest
    auto* granule = reinterpret_cast<unsigned char*>(p & ~uintptr_t{7});
    for (unsigned char* c = granule; c < pb; ++c) *c = CANARY;
    __asan_poison_memory_region(raw, static_cast<size_t>(granule - raw));
    __asan_poison_memory_region(pb + bytes, static_cast<size_t>(raw + rawsz - (pb + bytes)));
    Block b{p, bytes, esz, arena, l.serial++, l.op_serial, true, granule, raw, rawsz};
    l.blocks[p] = b;
    return pb;
}

inline void ledger_deallocate(void* ptr, size_t n, size_t esz, int arena)
{
    HarnessScope hs;
    auto& l = L();
    ++l.deallocs_this_op;
    auto it = l.blocks.find(reinterpret_cast<uintptr_t>(ptr));
    if (it == l.blocks.end())
    {
        report("C07", "ledger", "dealloc-unknown", "deallocate of a pointer the allocator never returned");
        return;
    }
    Block& b = it->second;
    if (!b.live)
    {
        report("C07", "ledger", "double-free", "block #%u (%zu bytes) deallocated twice", b.serial, b.bytes);
        return;
    }
    if (b.bytes != n * esz)
    {
        report("C07", "ledger", "dealloc-size", "block #%u allocated with %zu bytes, deallocated with %zu", b.serial,
               b.bytes, n * esz);
    }
    if (b.arena != arena)
    {
        report("C07,C08", "ledger", "dealloc-foreign-arena", "block #%u from arena %d deallocated through arena %d",
               b.serial, b.arena, arena);
    }
    for (unsigned char* c = b.canary_begin; c < reinterpret_cast<unsigned char*>(b.p); ++c)
    {
        if (*c != CANARY)
        {
            report("C02", "ledger", "underflow-canary", "bytes in front of block #%u overwritten", b.serial);
            break;
        }
    }
    b.live = false;
    __asan_poison_memory_region(reinterpret_cast<void*>(b.p), b.bytes);
}

// block containing address a (live or dead); nullptr if none. a == end of block counts as inside when
// one_past is set.
inline const Block* find_block(uintptr_t a, bool one_past = false)
{
    auto& m = L().blocks;
    auto it = m.upper_bound(a);
    if (it == m.begin()) return nullptr;
    --it;
    const Block& b = it->second;
    if (a < b.p + b.bytes || (one_past && a == b.p + b.bytes) || (b.bytes == 0 && a == b.p)) return &b;
    return nullptr;
}

inline size_t live_blocks()
{
    size_t n = 0;
    for (auto& kv : L().blocks) n += kv.second.live;
    return n;
}

inline void check_canaries()
{
    for (auto& kv : L().blocks)
    {
        const Block& b = kv.second;
        if (!b.live) continue;
        for (unsigned char* c = b.canary_begin; c < reinterpret_cast<unsigned char*>(b.p); ++c)
        {
            if (*c != CANARY)
            {
                report("C02", "ledger", "underflow-canary", "bytes in front of block #%u overwritten", b.serial);
                break;
            }
        }
    }
}

// Traits: propagate_on_container_{copy_assignment,move_assignment,swap}, is_always_equal,
// select_on_container_copy_construction returns a different arena (+100)
// EXPL: the converting (rebinding) constructor of the allocator is explicit - conforming, only direct-initialisation works
template <bool CC, bool MC, bool SW, bool AE, bool SOCCC, bool EXPL = false>
struct Tr
{
    static constexpr bool cc = CC, mc = MC, sw = SW, ae = AE, soccc = SOCCC, expl = EXPL;
};

template <bool Stateless>
struct ArenaHolder
{
    int arena_ = 0;
    constexpr int arena() const noexcept { return arena_; }
    constexpr void set_arena(int a) noexcept { arena_ = a; }
};
template <>
struct ArenaHolder<true>
{
    constexpr int arena() const noexcept { return 0; }
    constexpr void set_arena(int) noexcept {}
};

template <class T, class Traits>
struct Ledger : ArenaHolder<Traits::ae>
{
    using value_type = T;
    using propagate_on_container_copy_assignment = std::bool_constant<Traits::cc>;
    using propagate_on_container_move_assignment = std::bool_constant<Traits::mc>;
    using propagate_on_container_swap = std::bool_constant<Traits::sw>;
    using is_always_equal = std::bool_constant<Traits::ae>;
    template <class U>
    struct rebind
    {
        using other = Ledger<U, Traits>;
    };

    Ledger() = default;
    explicit Ledger(int arena) noexcept { this->set_arena(arena); }
    template <class U, bool E = Traits::expl, std::enable_if_t<!E, int> = 0>
    Ledger(const Ledger<U, Traits>& o) noexcept
    {
        this->set_arena(o.arena());
    }
    template <class U, bool E = Traits::expl, std::enable_if_t<E, int> = 0>
    explicit Ledger(const Ledger<U, Traits>& o) noexcept
    {
        this->set_arena(o.arena());
    }

    T* allocate(size_t n) { return static_cast<T*>(ledger_allocate(n, sizeof(T), alignof(T), this->arena())); }
    void deallocate(T* p, size_t n) noexcept { ledger_deallocate(p, n, sizeof(T), this->arena()); }

    Ledger select_on_container_copy_construction() const
    {
        if constexpr (Traits::soccc && !Traits::ae)
            return Ledger{this->arena() + 100};
        else
            return *this;
    }

    template <class U>
    friend bool operator==(const Ledger& a, const Ledger<U, Traits>& b) noexcept
    {
        return a.arena() == b.arena();
    }
    template <class U>
    friend bool operator!=(const Ledger& a, const Ledger<U, Traits>& b) noexcept
    {
        return a.arena() != b.arena();
    }
};
}  // namespace env
