// Violation collection shared by all harness pieces. Nothing here aborts: monitors append records, the
// engine decides what to do with them (filter by active property, write to the result pipe).
#pragma once
#include <cstdarg>
#include <cstdio>
#include <cstdint>
#include <string>
#include <vector>

namespace env
{
struct Viol
{
    std::string props;    // comma separated property ids this monitor speaks for, e.g. "C06" or "C07,C08"
    std::string monitor;  // short monitor name, part of the signature
    std::string discr;    // discriminator, part of the signature (no addresses, no history-dependent numbers)
    std::string msg;      // free text for humans
};

inline std::vector<Viol>& viols()
{
    static std::vector<Viol> v;
    return v;
}

inline void report(const char* props, const char* monitor, const std::string& discr, const char* fmt, ...)
{
    char buf[512];
    va_list ap;
    va_start(ap, fmt);
    vsnprintf(buf, sizeof buf, fmt, ap);
    va_end(ap);
    if (viols().size() < 64)
    {
        viols().push_back(Viol{props, monitor, discr, buf});
    }
}

// 64-bit FNV-1a style mixing, two lanes for a 128 bit digest
struct Hash128
{
    uint64_t a = 0xcbf29ce484222325ull, b = 0x9ae16a3b2f90404full;
    void byte(unsigned char c)
    {
        a = (a ^ c) * 0x100000001b3ull;
        b = (b ^ (c + 0x9e)) * 0xff51afd7ed558ccdull;
        b ^= b >> 29;
    }
    void bytes(const void* p, size_t n)
    {
        auto* c = static_cast<const unsigned char*>(p);
        for (size_t i = 0; i < n; ++i) byte(c[i]);
    }
    void u64(uint64_t v) { bytes(&v, 8); }
    void str(const std::string& s)
    {
        u64(s.size());
        bytes(s.data(), s.size());
    }
    std::string hex() const
    {
        char buf[40];
        snprintf(buf, sizeof buf, "%016llx%016llx", (unsigned long long)a, (unsigned long long)b);
        return buf;
    }
};
}  // namespace env
