// Value types used by the harness. Every type T has VT<T>::make(int) and VT<T>::read(const T&) so the
// reference model can store plain ints. Trk/TrkM report every construction, destruction, assignment and
// read to a registry keyed by object address (C06); their tag encodes the offset inside the ledger block
// that contains them, so bytes relocated by memcpy without a constructor call are visible.
#pragma once
#include "ledger.hpp"

#include <cstdint>
#include <cstdlib>
#include <cstring>
#include <map>
#include <string>

namespace env
{
using u8 = unsigned char;
using i8 = signed char;
using u16 = unsigned short;
using u32 = unsigned int;
using f32 = float;
using sz = std::size_t;

struct Odd3
{
    u8 a, b, c;
    friend bool operator==(const Odd3& x, const Odd3& y) { return x.a == y.a && x.b == y.b && x.c == y.c; }
    friend bool operator<(const Odd3& x, const Odd3& y) { return x.a < y.a; }
};

// same logical values as u8 but with user-provided comparison -> forces the generic comparison path
struct W8
{
    u8 v;
    friend bool operator==(const W8& x, const W8& y) { return x.v == y.v; }
    friend bool operator<(const W8& x, const W8& y) { return x.v < y.v; }
};

static constexpr int MOVED = -1;

struct ObjInfo
{
    int val;
    bool moved;
    unsigned born_op;
};

struct CopyFault
{
};

struct Registry
{
    std::map<uintptr_t, ObjInfo> live;
    unsigned long copy_ctor = 0, move_ctor = 0, copy_assign = 0, move_assign = 0, dtor = 0, value_ctor = 0;
    unsigned long copy_throw_at = 0, copies_seen = 0;  // != 0: the copy_throw_at-th copy construction of a Trk throws CopyFault
    void reset_counters() { copy_ctor = move_ctor = copy_assign = move_assign = dtor = value_ctor = 0; }
};

inline Registry& R()
{
    static Registry r;
    return r;
}

inline void reset_registry()
{
    R().live.clear();
    R().reset_counters();
}

static constexpr uint32_t TAG_EXTERNAL = 0x5EAF00D5u;
static constexpr uint32_t TAG_DEAD = 0xDEADDEADu;

inline uint32_t expected_tag(const void* self)
{
    const auto a = reinterpret_cast<uintptr_t>(self);
    if (const Block* b = find_block(a)) return 0xA5000000u ^ static_cast<uint32_t>((a - b->p) * 2654435761u >> 8);
    return TAG_EXTERNAL;
}

struct TrkCore
{
    int32_t val;
    uint32_t tag;

    void born(const char* how)
    {
        HarnessScope hs;
        const auto a = reinterpret_cast<uintptr_t>(this);
        auto& r = R();
        // any live object overlapping [a, a+8)?
        auto it = r.live.lower_bound(a >= 7 ? a - 7 : 0);
        if (it != r.live.end() && it->first < a + 8)
        {
            report("C06", "registry", std::string("construct-on-live:") + how,
                   "an object is %s-constructed on storage that holds a live object (offset delta %ld)", how,
                   static_cast<long>(a - it->first));
            r.live.erase(it);
        }
        tag = expected_tag(this);
        r.live[a] = ObjInfo{val, val == MOVED, L().op_serial};
    }
    // must be a live, untampered object
    bool check(const char* what) const
    {
        HarnessScope hs;
        const auto a = reinterpret_cast<uintptr_t>(this);
        auto& r = R();
        auto it = r.live.find(a);
        if (it == r.live.end())
        {
            report("C06", "registry", std::string(what) + "-non-live", "%s of an object that is not alive", what);
            return false;
        }
        if (tag != expected_tag(this) || it->second.val != val)
        {
            report("C06", "registry", std::string(what) + "-clobbered",
                   "%s of a live object whose bytes were overwritten or relocated without a constructor", what);
            return false;
        }
        return true;
    }
    void set(int v)
    {
        HarnessScope hs;
        val = v;
        auto it = R().live.find(reinterpret_cast<uintptr_t>(this));
        if (it != R().live.end())
        {
            it->second.val = v;
            it->second.moved = v == MOVED;
        }
    }
    void die()
    {
        HarnessScope hs;
        ++R().dtor;
        const auto a = reinterpret_cast<uintptr_t>(this);
        auto& r = R();
        auto it = r.live.find(a);
        if (it == r.live.end())
        {
            report("C06", "registry", "destroy-non-live", "destructor runs on storage that holds no live object%s",
                   tag == TAG_DEAD ? " (already destroyed)" : "");
        }
        else
        {
            if (tag != expected_tag(this) || it->second.val != val)
                report("C06", "registry", "destroy-clobbered",
                       "destructor of a live object whose bytes were overwritten");
            r.live.erase(it);
        }
        tag = TAG_DEAD;
    }
    void take(TrkCore& o)  // move construction
    {
        o.check("move-from");
        val = o.val;
        ++R().move_ctor;
        o.set(MOVED);
        born("move");
    }
    void move_assign(TrkCore& o)
    {
        check("assign-to");
        if (this != &o)
        {
            o.check("move-from");
            ++R().move_assign;
            set(o.val);
            o.set(MOVED);
        }
    }
    friend bool operator==(const TrkCore& a, const TrkCore& b)
    {
        a.check("read");
        b.check("read");
        return a.val == b.val;
    }
    friend bool operator!=(const TrkCore& a, const TrkCore& b) { return !(a == b); }
    friend bool operator<(const TrkCore& a, const TrkCore& b)
    {
        a.check("read");
        b.check("read");
        return a.val < b.val;
    }
};

struct Trk : TrkCore
{
    Trk(int v)
    {
        val = v;
        ++R().value_ctor;
        born("value");
    }
    Trk(const Trk& o)
    {
        if (R().copy_throw_at && ++R().copies_seen == R().copy_throw_at) throw CopyFault{};
        o.check("copy-from");
        val = o.val;
        ++R().copy_ctor;
        born("copy");
    }
    Trk(Trk&& o) noexcept { take(o); }
    Trk& operator=(const Trk& o)
    {
        check("assign-to");
        o.check("copy-from");
        ++R().copy_assign;
        set(o.val);
        return *this;
    }
    Trk& operator=(Trk&& o) noexcept
    {
        move_assign(o);
        return *this;
    }
    ~Trk() { die(); }
};

struct TrkM : TrkCore
{
    TrkM(int v)
    {
        val = v;
        ++R().value_ctor;
        born("value");
    }
    TrkM(const TrkM&) = delete;
    TrkM(TrkM&& o) noexcept { take(o); }
    TrkM& operator=(const TrkM&) = delete;
    TrkM& operator=(TrkM&& o) noexcept
    {
        move_assign(o);
        return *this;
    }
    ~TrkM() { die(); }
};

// like Trk, but its move constructor and move assignment are not noexcept (code that chooses between move and copy
// with std::move_if_noexcept-style logic takes a different path)
struct TrkN : TrkCore
{
    TrkN(int v)
    {
        val = v;
        ++R().value_ctor;
        born("value");
    }
    TrkN(const TrkN& o)
    {
        o.check("copy-from");
        val = o.val;
        ++R().copy_ctor;
        born("copy");
    }
    TrkN(TrkN&& o) { take(o); }
    TrkN& operator=(const TrkN& o)
    {
        check("assign-to");
        o.check("copy-from");
        ++R().copy_assign;
        set(o.val);
        return *this;
    }
    TrkN& operator=(TrkN&& o)
    {
        move_assign(o);
        return *this;
    }
    ~TrkN() { die(); }
};
static_assert(!std::is_nothrow_move_constructible_v<TrkN> && std::is_copy_constructible_v<TrkN>);

static_assert(sizeof(Trk) == 8 && sizeof(TrkM) == 8);
static_assert(!std::is_trivially_copyable_v<Trk> && !std::is_copy_constructible_v<TrkM>);
static_assert(std::is_copy_constructible_v<Trk> && std::is_move_constructible_v<TrkM>);

template <class T>
inline constexpr bool IS_TRACKED = std::is_base_of_v<TrkCore, T>;

// user-provided copy constructor, but trivial move constructor and trivial destructor: not trivially copyable, so a
// copy must go through the copy constructor (counted), while relocation by memcpy/memmove is legitimate
struct Cpy
{
    int32_t val;
    uint32_t gen;
    Cpy(int v) : val(v), gen(0) {}
    Cpy(const Cpy& o) : val(o.val), gen(o.gen + 1) { ++R().copy_ctor; }
    Cpy(Cpy&&) = default;
    Cpy& operator=(const Cpy&) = default;
    Cpy& operator=(Cpy&&) = default;
    ~Cpy() = default;
    friend bool operator==(const Cpy& a, const Cpy& b) { return a.val == b.val; }
    friend bool operator<(const Cpy& a, const Cpy& b) { return a.val < b.val; }
};
static_assert(!std::is_trivially_copy_constructible_v<Cpy> && std::is_trivially_move_constructible_v<Cpy> &&
              std::is_trivially_destructible_v<Cpy> && !std::is_trivially_copyable_v<Cpy>);

// trivially copy/move constructible and trivially destructible, but with a user-provided copy assignment: not
// trivially copyable although every constructor is trivial (std::pair<int, int> is the everyday example)
struct Asg
{
    int32_t val;
    Asg(int v) : val(v) {}
    Asg(const Asg&) = default;
    Asg(Asg&&) = default;
    Asg& operator=(const Asg& o)
    {
        val = o.val;
        return *this;
    }
    ~Asg() = default;
    friend bool operator==(const Asg& a, const Asg& b) { return a.val == b.val; }
    friend bool operator<(const Asg& a, const Asg& b) { return a.val < b.val; }
};
static_assert(std::is_trivially_copy_constructible_v<Asg> && std::is_trivially_move_constructible_v<Asg> &&
              std::is_trivially_destructible_v<Asg> && !std::is_trivially_copyable_v<Asg>);

// an over-aligned trivially copyable class: 32 bytes, alignas(32); the seven pad words repeat the value so that a
// partially copied or shifted object is recognisable
struct alignas(32) Big32
{
    int32_t v;
    int32_t pad[7];
    friend bool operator==(const Big32& a, const Big32& b) { return a.v == b.v; }
    friend bool operator<(const Big32& a, const Big32& b) { return a.v < b.v; }
};
static_assert(sizeof(Big32) == 32 && alignof(Big32) == 32 && std::is_trivially_copyable_v<Big32>);
// an empty class (size 1, no state)
struct Emp
{
    friend bool operator==(const Emp&, const Emp&) { return true; }
    friend bool operator<(const Emp&, const Emp&) { return false; }
};
enum class En : u16
{
};
// a pointer into a static table (its bytes are an absolute address)
using Ptr = const int*;
inline const int* ptr_table()
{
    static const int table[256] = {};
    return table;
}

// trivial copy operations, user-provided move operations that mark the source: trivially copy assignable but not
// trivially move assignable (a handle that is cheap to copy but wants to know when it is moved from)
struct Mva
{
    int32_t val;
    Mva(int v) : val(v) {}
    Mva(const Mva&) = default;
    Mva& operator=(const Mva&) = default;
    Mva(Mva&& o) noexcept : val(o.val) { o.val = MOVED; }
    Mva& operator=(Mva&& o) noexcept
    {
        val = o.val;
        if (this != &o) o.val = MOVED;
        return *this;
    }
    ~Mva() = default;
    friend bool operator==(const Mva& a, const Mva& b) { return a.val == b.val; }
    friend bool operator<(const Mva& a, const Mva& b) { return a.val < b.val; }
};
static_assert(std::is_trivially_copy_assignable_v<Mva> && !std::is_trivially_move_assignable_v<Mva> &&
              std::is_trivially_copy_constructible_v<Mva> && !std::is_trivially_move_constructible_v<Mva>);

// a trivially copyable class that overloads unary operator& (COM-style handle): only std::addressof finds its address
struct Amp
{
    struct Address
    {
    };
    int32_t v;
    Address operator&() const { return {}; }
    friend bool operator==(const Amp& a, const Amp& b) { return a.v == b.v; }
    friend bool operator<(const Amp& a, const Amp& b) { return a.v < b.v; }
};

// VT<T>::norm(x): the value read back from make(x) - the identity unless the type has fewer states than the model
template <class T, class = void>
struct VT
{
    static T make(int x) { return static_cast<T>(x); }
    static int read(const T& v) { return static_cast<int>(v); }
    static int norm(int x) { return x; }
    static constexpr bool tracked = false;
};
// unsigned integers wider than a byte hold the model value replicated into every byte (7 -> 0x07070707): a copy that
// stops short, starts late or is shifted by a byte leaves a value whose bytes disagree and reads as -8. (Count fields
// of VaryingSize parameters do not go through VT, they hold the plain count.)
template <class U>
struct VTRep
{
    static constexpr U ONES = static_cast<U>(~static_cast<U>(0)) / 0xFF;  // 0x0101...01
    static U make(int x) { return static_cast<U>(static_cast<U>(x & 0xFF) * ONES); }
    static int read(const U& v)
    {
        const U low = static_cast<U>(v & 0xFF);
        return v == static_cast<U>(low * ONES) ? static_cast<int>(low) : -8;
    }
    static int norm(int x) { return x & 0xFF; }
    static constexpr bool tracked = false;
};
template <>
struct VT<u16> : VTRep<u16>
{
};
template <>
struct VT<u32> : VTRep<u32>
{
};
template <>
struct VT<unsigned long> : VTRep<unsigned long>
{
};
template <>
struct VT<unsigned long long> : VTRep<unsigned long long>
{
};
template <>
struct VT<Big32>
{
    static Big32 make(int x)
    {
        Big32 b;
        b.v = x;
        for (int i = 0; i < 7; ++i) b.pad[i] = x ^ (0x1010101 * (i + 1));
        return b;
    }
    static int read(const Big32& b)
    {
        for (int i = 0; i < 7; ++i)
            if (b.pad[i] != (b.v ^ (0x1010101 * (i + 1)))) return -6;
        return b.v;
    }
    static int norm(int x) { return x; }
    static constexpr bool tracked = false;
};
template <>
struct VT<Mva>
{
    static Mva make(int x) { return Mva(x); }
    static int read(const Mva& a) { return a.val; }
    static int norm(int x) { return x; }
    static constexpr bool tracked = false;
};
template <>
struct VT<Amp>
{
    static Amp make(int x) { return Amp{x}; }
    static int read(const Amp& a) { return a.v; }
    static int norm(int x) { return x; }
    static constexpr bool tracked = false;
};
template <>
struct VT<Emp>
{
    static Emp make(int) { return Emp{}; }
    static int read(const Emp&) { return 0; }
    static int norm(int) { return 0; }
    static constexpr bool tracked = false;
};
template <>
struct VT<bool>
{
    static bool make(int x) { return (x & 1) != 0; }
    static int read(const bool& v)
    {
        unsigned char raw;
        std::memcpy(&raw, &v, 1);
        return raw > 1 ? -7 : raw;  // a bool whose byte is neither 0 nor 1 was produced by a byte copy of something else
    }
    static int norm(int x) { return x & 1; }
    static constexpr bool tracked = false;
};
template <>
struct VT<En>
{
    static En make(int x) { return static_cast<En>(x); }
    static int read(const En& v) { return static_cast<int>(v); }
    static int norm(int x) { return x; }
    static constexpr bool tracked = false;
};
template <>
struct VT<Ptr>
{
    static Ptr make(int x) { return ptr_table() + (x & 255); }
    static int read(const Ptr& v)
    {
        const auto d = v - ptr_table();
        return (v == nullptr || d < 0 || d > 255) ? -5 : static_cast<int>(d);
    }
    static int norm(int x) { return x & 255; }
    static constexpr bool tracked = false;
};
template <>
struct VT<Odd3>
{
    static int norm(int x) { return x; }
    static Odd3 make(int x) { return Odd3{static_cast<u8>(x), static_cast<u8>(x ^ 0x55), static_cast<u8>(~x)}; }
    static int read(const Odd3& v)
    {
        if (v.b != static_cast<u8>(v.a ^ 0x55) || v.c != static_cast<u8>(~v.a)) return -2;
        return v.a;
    }
    static constexpr bool tracked = false;
};
template <>
struct VT<W8>
{
    static int norm(int x) { return x; }
    static W8 make(int x) { return W8{static_cast<u8>(x)}; }
    static int read(const W8& v) { return v.v; }
    static constexpr bool tracked = false;
};
// std::string with short (small-string-optimised) contents: the object points into itself, so it is the classic type
// that must not be relocated with memcpy although nothing but its address changes
using Str = std::string;
template <>
struct VT<Str>
{
    static int norm(int x) { return x; }
    static Str make(int x) { return "s" + std::to_string(x); }
    static int read(const Str& v)
    {
        if (v.size() < 2 || v.size() > 6 || v[0] != 's') return -4;
        return std::atoi(v.c_str() + 1);
    }
    static constexpr bool tracked = false;
};
template <>
struct VT<Asg>
{
    static int norm(int x) { return x; }
    static Asg make(int x) { return Asg(x); }
    static int read(const Asg& v) { return v.val; }
    static constexpr bool tracked = false;
};
template <>
struct VT<Cpy>
{
    static int norm(int x) { return x; }
    static Cpy make(int x) { return Cpy(x); }
    static int read(const Cpy& v) { return v.val; }
    static constexpr bool tracked = false;
};
template <class T>
struct VT<T, std::enable_if_t<IS_TRACKED<T>>>
{
    static int norm(int x) { return x; }
    static T make(int x) { return T(x); }
    static int read(const T& v)
    {
        if (!v.check("read")) return -3;
        return v.val;
    }
    static constexpr bool tracked = true;
};
}  // namespace env
