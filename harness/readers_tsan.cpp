// Free-running cross-check for C19 under the genuine ThreadSanitizer: 16 real threads perform the const
// operations on shared vectors while each of them also mutates its own copy. A TSan report is a violation;
// silence is supporting evidence only (the deciding step is the exhaustive footprint check).
#include <cntgs/contiguous.hpp>

#include <array>
#include <atomic>
#include <cstdio>
#include <string>
#include <thread>
#include <vector>

static constexpr int THREADS = 16;
static std::atomic<long> g_sink{0};
static std::atomic<int> g_ready{0};

template <class T>
static long raw(const T& x)
{
    if constexpr (std::is_same_v<T, std::string>)
        return static_cast<long>(x.size()) + (x.empty() ? 0 : x[0]);
    else
        return static_cast<long>(x);
}
template <std::size_t I, class Ref>
static long touch_field(const Ref& r)
{
    long acc = 0;
    using F = std::decay_t<decltype(cntgs::get<I>(r))>;
    if constexpr (std::is_arithmetic_v<F> || std::is_same_v<F, std::string>)
        acc += raw(cntgs::get<I>(r));
    else
        for (auto& x : cntgs::get<I>(r)) acc += raw(x);
    return acc;
}
template <class Ref, std::size_t... I>
static long touch(const Ref& r, std::index_sequence<I...>)
{
    return (touch_field<I>(r) + ... + 0);
}

template <std::size_t NP, class Vec, class Mutate>
static void run(const char* name, Vec& shared, const Vec& second, Mutate mutate, int reps)
{
    std::vector<Vec> own;
    for (int t = 0; t < THREADS; ++t) own.emplace_back(shared);  // copied from one another
    // a shared ELEMENT (const operations on it from every thread) and a const lvalue of the mutable reference type
    using El = typename Vec::value_type;
    const El shared_elem(std::as_const(shared)[0]);
    const typename Vec::reference shared_ref = shared[0];
    g_ready = 0;
    std::vector<std::thread> ts;
    const Vec& cs = shared;
    for (int t = 0; t < THREADS; ++t)
        ts.emplace_back(
            [&, t]
            {
                ++g_ready;
                while (g_ready.load() < THREADS) std::this_thread::yield();
                long a = 0;
                for (int rep = 0; rep < reps; ++rep)
                {
                    a += static_cast<long>(cs.size() + cs.capacity() + cs.empty() + cs.memory_consumption());
                    a += reinterpret_cast<long>(cs.data_begin()) + reinterpret_cast<long>(cs.data_end());
                    for (std::size_t i = 0; i < cs.size(); ++i) a += touch(cs[i], std::make_index_sequence<NP>{});
                    if (!cs.empty()) a += touch(cs.front(), std::make_index_sequence<NP>{}) + touch(cs.back(), std::make_index_sequence<NP>{});
                    for (auto it = cs.begin(); it != cs.end(); ++it) a += touch(*it, std::make_index_sequence<NP>{});
                    a += (cs == cs) + (cs < cs) + (cs == second) + (cs < second) + (second < cs) + (cs != second);
                    {
                        Vec copy(cs);
                        a += static_cast<long>(copy.size());
                    }
                    for (std::size_t i = 0; i < cs.size(); ++i)
                    {
                        typename Vec::value_type e(cs[i]);
                        a += touch(typename Vec::const_reference{e}, std::make_index_sequence<NP>{});
                    }
                    {
                        El c(shared_elem);  // copying a shared element
                        a += touch(typename Vec::const_reference{std::as_const(c)}, std::make_index_sequence<NP>{});
                        El c2(shared_elem, shared_elem.get_allocator());
                        c2 = shared_elem;  // copy assignment FROM the shared element into a private one
                        a += touch(typename Vec::const_reference{std::as_const(c2)}, std::make_index_sequence<NP>{});
                        a += touch(typename Vec::const_reference{shared_elem}, std::make_index_sequence<NP>{});
                        a += (shared_elem == shared_elem) + (shared_elem < shared_elem) + (shared_elem == cs[0]) + (cs[0] == shared_elem);
                        El c3(shared_ref);  // element from a const lvalue of the mutable reference type: a copy
                        a += touch(typename Vec::const_reference{std::as_const(c3)}, std::make_index_sequence<NP>{});
                    }
                    mutate(own[static_cast<std::size_t>(t)], rep);
                }
                g_sink += a;
            });
    for (auto& th : ts) th.join();
    std::printf("ok %s\n", name);
}

int main()
{
    const int reps = 40;
    {
        using V = cntgs::ContiguousVector<unsigned, float>;
        V a{4}, b{4};
        for (unsigned i = 0; i < 3; ++i) a.emplace_back(i, 1.5f * i);
        b.emplace_back(7u, 1.f);
        run<2>("plain", a, b,
               [](V& v, int rep)
               {
                   if (rep % 3 == 0 && !v.empty()) v.pop_back();
                   if (rep % 3 == 1 && !v.empty()) v.erase(v.begin());
                   if (rep % 3 == 2) { v.reserve(v.capacity() + 1); v.emplace_back(9u, 2.f); }
               },
               reps);
    }
    {
        using V = cntgs::ContiguousVector<cntgs::FixedSize<std::string>, std::string>;
        V a{4, {2}}, b{4, {2}};
        for (int i = 0; i < 3; ++i) a.emplace_back(std::array{std::string(30, 'a' + i), std::string(40, 'b')}, std::string(35, 'c'));
        b.emplace_back(std::array{std::string(30, 'x'), std::string(40, 'y')}, std::string(35, 'z'));
        run<2>("fixed strings", a, b,
               [](V& v, int rep)
               {
                   if (rep % 3 == 0 && !v.empty()) v.pop_back();
                   if (rep % 3 == 1 && !v.empty()) v.erase(v.begin());
                   if (rep % 3 == 2) { v.reserve(v.capacity() + 1); v.emplace_back(std::array{std::string(31, 'q'), std::string(41, 'r')}, std::string(36, 's')); }
               },
               reps);
    }
    {
        using V = cntgs::ContiguousVector<cntgs::AlignAs<std::size_t, 8>, cntgs::VaryingSize<float>>;
        V a{4, 10 * sizeof(float)}, b{4, 10 * sizeof(float)};
        a.emplace_back(2u, std::array{1.f, 2.f});
        a.emplace_back(3u, std::array{3.f, 4.f, 5.f});
        a.emplace_back(0u, std::vector<float>{});
        b.emplace_back(1u, std::array{9.f});
        run<2>("varying floats", a, b,
               [](V& v, int rep)
               {
                   if (rep % 3 == 0 && !v.empty()) v.pop_back();
                   if (rep % 3 == 1 && !v.empty()) v.erase(v.begin());
                   if (rep % 3 == 2) { v.reserve(v.capacity() + 1, 20 * sizeof(float)); v.emplace_back(1u, std::array{7.f}); }
               },
               reps);
    }
    {
        using V = cntgs::ContiguousVector<cntgs::FixedSize<unsigned short>, cntgs::AlignAs<std::size_t, 8>, cntgs::VaryingSize<std::string>, unsigned char>;
        V a{4, 6 * sizeof(std::string), {2}}, b{4, 6 * sizeof(std::string), {2}};
        a.emplace_back(std::array<unsigned short, 2>{1, 2}, 2u, std::array{std::string(30, 'a'), std::string(40, 'b')}, static_cast<unsigned char>(1));
        a.emplace_back(std::array<unsigned short, 2>{3, 4}, 1u, std::array{std::string(33, 'c')}, static_cast<unsigned char>(2));
        b.emplace_back(std::array<unsigned short, 2>{5, 6}, 0u, std::vector<std::string>{}, static_cast<unsigned char>(3));
        run<4>("mixed strings", a, b,
               [](V& v, int rep)
               {
                   if (rep % 2 == 0 && !v.empty()) v.pop_back();
                   if (rep % 2 == 1) v.clear();
               },
               reps);
    }
    return g_sink.load() == 42 ? 1 : 0;
}
