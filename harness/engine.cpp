// Explicit-state BFS over the real library code with fork isolation per transition (DESIGN.md 2.4).
// One binary per (parameter list, allocator kind): -DCFG_LIST=V1 -DCFG_ALLOC=AE
#include "engine.hpp"

#include <fcntl.h>
#include <signal.h>
#include <sys/mman.h>
#include <sys/stat.h>
#include <sys/time.h>
#include <sys/wait.h>
#include <unistd.h>

#include <chrono>
#include <cstdio>
#include <cstring>
#include <fstream>
#include <iostream>
#include <unordered_set>

using namespace hx;
using LST = HX_CAT(L_, CFG_LIST);
using TRT = HX_CAT(A_, CFG_ALLOC);
using Eng = Engine<LST, TRT>;

// ---------------------------------------------------------------- operator new interposition (C07)
void* operator new(std::size_t n)
{
    if (env::L().in_lib && env::L().harness_depth == 0) ++env::L().foreign_new;
    void* p = std::malloc(n ? n : 1);
    if (!p) throw std::bad_alloc();
    return p;
}
void operator delete(void* p) noexcept { std::free(p); }
void operator delete(void* p, std::size_t) noexcept { std::free(p); }

// ---------------------------------------------------------------- ASan report hook
static int g_pipe_fd = -1;
static unsigned g_asan_reports = 0;
static char* g_prog_crash = nullptr;

static void asan_cb(const char* text)
{
    env::HarnessScope hs;
    ++g_asan_reports;
    std::string cls = "unknown", access;
    if (const char* p = std::strstr(text, "AddressSanitizer: "))
    {
        p += 18;
        const char* e = p;
        while (*e && *e != ' ' && *e != '\n' && *e != ':') ++e;
        cls.assign(p, e);
    }
    if (std::strstr(text, "\nWRITE of size") || std::strstr(text, "WRITE of size"))
        access = "WRITE";
    else if (std::strstr(text, "READ of size"))
        access = "READ";
    const bool deadly = cls == "SEGV" || cls == "stack-overflow" || cls == "BUS" || cls == "FPE" || cls == "ILL" ||
                        cls == "ABRT" || std::strstr(text, "DEADLYSIGNAL");
    if (deadly && g_prog_crash)
    {
        std::snprintf(g_prog_crash, 64, "asan:%s", cls.c_str());
    }
    else
    {
        env::report("MEM", "asan", cls + (access.empty() ? "" : ":" + access), "AddressSanitizer: %s %s", cls.c_str(),
                    access.c_str());
    }
}

// ---------------------------------------------------------------- parameters
struct Cli
{
    Params prm;
    int junk = 0, base = 0, workers = 1;
    double deadline = 1e9;
    std::string out, replay, tmpdir = "/verif/out/tmp";
    long max_states = 2000000;
    bool verbose = false;
    bool terminal = true;
    int fail_at = 0;  // --replay: allocation (counted within the last operation) that fails
    int faults = 0;  // 0 none, 1 = one injected failure per operation, 2 = follow-ups with a second failure
    std::set<std::string> prune_tags;  // context tags of known findings: transitions carrying one are not expanded
};

static std::vector<std::string> split(const std::string& s, char c)
{
    std::vector<std::string> out;
    size_t pos = 0;
    while (pos <= s.size())
    {
        size_t q = s.find(c, pos);
        if (q == std::string::npos) q = s.size();
        out.push_back(s.substr(pos, q - pos));
        pos = q + 1;
    }
    return out;
}

static double now()
{
    using namespace std::chrono;
    return duration<double>(steady_clock::now().time_since_epoch()).count();
}

// ---------------------------------------------------------------- attribution (which property a violation belongs to)
static bool is_pair_op(uint8_t k)
{
    return k == O_CC || k == O_CA || k == O_MC || k == O_MA || k == O_SW || k == O_DES || k == O_TCPY || k == O_TCPA ||
           k == O_TSWP;
}
static bool is_ref_op(uint8_t k) { return k == O_RAR || k == O_RSW || k == O_ROT || k == O_REV || k == O_SWR || k == O_WP; }
static bool is_elem_op(uint8_t k) { return k >= O_XR && k <= O_XDES; }
static bool is_c01_op(uint8_t k)
{
    return k == O_NEW || k == O_DEF || k == O_EB || k == O_PB || k == O_ER1 || k == O_ER2 || k == O_CL || k == O_RS || k == O_FILL || k == O_EBS;
}

static bool has_prop(const std::string& props, const std::string& p)
{
    for (auto& q : split(props, ','))
        if (q == p) return true;
    return false;
}

// generic classes: VAL (value/size mismatch against the model), MEM (AddressSanitizer report), CRASH
static bool relevant(const std::string& prop, const std::string& vprops, const Ctx& e, bool in_fault)
{
    if (has_prop(vprops, prop) || prop == "ALL") return true;
    if (has_prop(vprops, "INTERNAL")) return false;
    const bool generic = has_prop(vprops, "VAL") || has_prop(vprops, "CRASH");
    const bool mem = has_prop(vprops, "MEM");
    const uint8_t k = e.last.k;
    if (prop == "C17") return (in_fault || e.fault_seen) && (generic || mem || has_prop(vprops, "C06") || has_prop(vprops, "C07"));
    // (also behind a reserve that failed: the vector still has to be what its capacity() says)
    // and an emplace_back somewhere behind a growing reserve: the reserved room has to be usable
    if (prop == "C10" && !in_fault)
        return (generic || mem) && (k == O_RS || e.fill_phase || ((e.fault_seen || e.seen_rs_grow) && (k == O_EB || k == O_FILL || k == O_EBS)));
    // a double destruction / construction on a live object is what it is, with or without an injected failure
    if (prop == "C06" && (in_fault || e.fault_seen)) return has_prop(vprops, "C06");
    if (in_fault || e.fault_seen) return false;
    if (prop == "C01") return generic && is_c01_op(k) && !e.seen_pair_op;
    if (prop == "C02") return mem || has_prop(vprops, "CRASH");
    // a stored value that differs from the model after an operation that was not asked to write it has been
    // overwritten while alive (the only way the clause is observable for trivial value types)
    if (prop == "C06") return has_prop(vprops, "VAL") && !is_ref_op(k);
    // (an AddressSanitizer report inside a copy/move/swap counts as well: the operation did not produce an independent copy)
    // and after swap the allocator/ownership monitors: "swap exchanges the complete contents"
    if (prop == "C09")
        return (generic && (is_pair_op(k) || e.seen_pair_op)) || (mem && is_pair_op(k)) || (k == O_SW && has_prop(vprops, "C08"));
    if (prop == "C10") return (generic || mem) && (k == O_RS || e.fill_phase);
    if (prop == "C11") return (generic && is_ref_op(k)) || false;
    if (prop == "C12") return (generic || mem) && is_elem_op(k);
    // every monitor counts for an operation on an empty / default-constructed vector ("well defined on it")
    if (prop == "C18")
        return (generic || mem || has_prop(vprops, "C07") || has_prop(vprops, "C08") || has_prop(vprops, "C06") || has_prop(vprops, "C02")) &&
               e.pre_empty;
    return false;
}

// A transition that does not finish is a violation (an endless loop), but only time the process actually spent
// computing counts: the limit is on CPU time (ITIMER_PROF), so a machine that is busy with other work cannot turn a
// slow schedule into a "timeout". A generous wall-clock alarm remains for a process that blocks.
static void cpu_limit(int seconds)
{
    itimerval it{};
    it.it_value.tv_sec = seconds;
    setitimer(ITIMER_PROF, &it, nullptr);
    alarm(seconds ? 1800 : 0);
}

// ---------------------------------------------------------------- record I/O
struct Rec
{
    long state = 0;
    std::string op, verdict, canon, obs;
    int xd = 0;
    std::vector<env::Viol> viols;     // relevant ones
    unsigned foreign = 0;             // violations of other properties (state pruned, not reported here)
    std::string crash;
    std::string tag;
    unsigned checks = 0;
    int fail_at = 0;
};

static std::string sanitize(std::string s)
{
    for (auto& c : s)
        if (c == '\t' || c == '\n' || c == '\x1f') c = ' ';
    return s;
}

static void write_all(int fd, const std::string& s)
{
    size_t off = 0;
    while (off < s.size())
    {
        ssize_t w = write(fd, s.data() + off, s.size() - off);
        if (w <= 0) break;
        off += static_cast<size_t>(w);
    }
}

static std::string viol_lines(const std::vector<env::Viol>& vs)
{
    std::string s;
    for (auto& v : vs) s += "V\t" + v.props + "\x1f" + v.monitor + "\x1f" + sanitize(v.discr) + "\x1f" + sanitize(v.msg) + "\n";
    return s;
}

static void set_env(const Cli& c)
{
    env::L().junk = c.junk;
    env::L().base = c.base;
}

static void reset_all(const Cli& c)
{
    env::reset_ledger();
    env::reset_registry();
    env::viols().clear();
    g_asan_reports = 0;
    set_env(c);
}

// classify the collected violations of this process into relevant / foreign
static void classify(const Cli& cli, const Ctx& e, bool in_fault, std::vector<env::Viol>& rel, unsigned& foreign)
{
    for (auto& v : env::viols())
    {
        bool r = false;
        for (auto& p : cli.prm.active) r = r || relevant(p, v.props, e, in_fault);
        if (r)
        {
            rel.push_back(v);
            if (!e.op_tag.empty()) rel.back().discr += "@" + e.op_tag;
        }
        else
            ++foreign;
    }
}

// progress shared between a sub-worker and its supervisor (survives the death of the sub-worker)
struct Progress
{
    long pos;        // position in the worker's list of states
    int op;          // index of the operation in flight (-1: replaying the state itself)
    int fail_at;     // injected failure position in flight
    int in_flight;   // 1 while a transition executes
    int done_state;  // the state at pos has been completed
    char opstr[64];
    char tag[32];
    char crash[64];
    int pre_empty, seen_pair_op, fill_phase, fault_seen;
};
static Progress* g_prog = nullptr;

static Eng* replay_state(const Cli& cli, const History& hist)
{
    reset_all(cli);
    Eng* e = new Eng;
    e->prm = cli.prm;
    for (auto& o : hist) e->apply(o);
    return e;
}

// One transition, executed in-process on a freshly replayed state. Returns true when the process is still
// clean (nothing suspicious happened) and may go on with the next transition.
static bool run_transition(const Cli& cli, const History& hist, const Op& o, int fd, int fail_at, unsigned& allocs_out)
{
    cpu_limit(20);
    Eng* e = replay_state(cli, hist);
    const unsigned replay_noise = static_cast<unsigned>(env::viols().size()) + g_asan_reports;
    env::viols().clear();
    const bool want_canon = o.k == O_RS || e->pending_fail != 0;
    auto pre = e->snapshot(want_canon);
    e->keep_iterators();
    {
        const std::string tag = e->compute_tag(o);
        std::snprintf(g_prog->tag, sizeof g_prog->tag, "%s", tag.c_str());
        const int t = o.a[0];
        const bool vec_op = o.k < O_XR || o.k == O_VMUT;
        g_prog->pre_empty = vec_op && t >= 0 && t < 2 && (o.k == O_NEW || o.k == O_DEF || (e->m[t].present && e->m[t].el.empty()));
        g_prog->seen_pair_op = e->seen_pair_op;
        g_prog->fault_seen = e->fault_seen || e->pending_fail != 0;
        g_prog->fill_phase = e->fill_phase;
    }
    env::L().fail_at = fail_at;
    env::L().faults_thrown = 0;
    const bool completed = e->apply(o);
    env::L().fail_at = 0;
    allocs_out = env::L().allocs_this_op;
    const bool in_fault = fail_at != 0;
    // canonical form of the reached state: taken right after the operation, before any monitor runs (monitors build
    // temporary vectors; if the library leaks one of their blocks the ledger part of the canon would differ from
    // what a plain replay of the history reaches)
#ifdef HX_FOOTPRINT
    // C19: the recorded const operations come first, before any other (unrecorded) call into the library
    if (!in_fault && completed && cli.prm.on("C19")) e->footprint_monitors();
#endif
    std::string canon = (in_fault || !completed) ? std::string("-") : e->canon();
    if (in_fault && completed && env::L().faults_thrown == 0)
    {
        // fewer allocations than fail_at: nothing injected
        delete e;
        cpu_limit(0);
        return true;
    }
    if (in_fault)
    {
        if (completed)
            env::report("C17", "faults", "exception-swallowed", "an allocation failure did not propagate to the caller");
        else
            e->after_fault_monitors();
    }
    else
    {
        e->transition_monitors(pre, o);
        e->inspect();
    }
    const Ctx ctx = e->ctx();
    // terminal check: destroy everything, the ledger and the registry must be empty (only from a clean state)
    bool clean = env::viols().empty() && g_asan_reports == 0 && replay_noise == 0;
    if (clean || in_fault)
    {
        e->terminal_check();
        delete e;
        e = nullptr;
        clean = env::viols().empty() && g_asan_reports == 0 && replay_noise == 0;
    }
    std::vector<env::Viol> rel;
    unsigned foreign = 0;
    classify(cli, ctx, in_fault, rel, foreign);
    std::string verdict = "OK";
    if (!rel.empty())
        verdict = "VIOL";
    else if (foreign)
        verdict = "FOREIGN";
    env::Hash128 oh;
    oh.str(ctx.obs);
    std::string line = "T\t" + op_str(o) + "\t" + verdict + "\t" + canon + "\t" + oh.hex() + "\t" +
                       std::to_string((ctx.fill_phase || ctx.free_step) ? 1 : 0) + "\t" + std::to_string(foreign) + "\t" +
                       std::to_string(fail_at) + "\t" + std::to_string(allocs_out) + "\t" + (ctx.op_tag.empty() ? "-" : ctx.op_tag) + "\n";
    line += viol_lines(rel);
    line += "E\n";
    write_all(fd, line);
    cpu_limit(0);
    return clean;  // a process that saw anything suspicious is not reused (e is deliberately leaked)
}
// ---------------------------------------------------------------- coordinator
struct Node
{
    int parent;
    Op op;
    uint16_t depth;
    uint8_t xd;
    uint8_t polluted;  // reached through a transition at which monitors of other properties fired
};

static std::vector<Node> nodes;
static std::vector<std::string> node_canon;

static History history_of(long idx)
{
    History h;
    while (idx > 0)
    {
        h.push_back(nodes[static_cast<size_t>(idx)].op);
        idx = nodes[static_cast<size_t>(idx)].parent;
    }
    std::reverse(h.begin(), h.end());
    return h;
}

struct Found
{
    std::string props, monitor, discr, msg, history, op;
    long count = 1;
    int fail_at = 0;
};

static std::string json_escape(const std::string& s)
{
    std::string o;
    for (char c : s)
    {
        if (c == '"' || c == '\\')
        {
            o += '\\';
            o += c;
        }
        else if (static_cast<unsigned char>(c) < 0x20)
            o += ' ';
        else
            o += c;
    }
    return o;
}

static std::string config_class()
{
    std::string s = LST::NF && LST::NV ? "mixed" : LST::NF ? "fixed" : LST::NV ? "varying" : "plain";
    s += LST::ALL_TRIVIAL ? "+trivial" : "+nontrivial";
    s += LST::HAS_ALIGN ? "+aligned" : "+packed";
    s += std::string("+") + HX_STR(CFG_ALLOC);
    return s;
}

static int replay_main(const Cli& cli)
{
    set_env(cli);
    History h;
    if (!parse_history(cli.replay, h))
    {
        std::cerr << "cannot parse history\n";
        return 2;
    }
    Eng e;
    e.prm = cli.prm;
    int bad = 0;
    bool in_fault = false;
    for (size_t i = 0; i < h.size(); ++i)
    {
        env::viols().clear();
        auto pre = e.snapshot(h[i].k == O_RS || e.pending_fail != 0);
        e.keep_iterators();
        // a recorded allocation failure is injected into the last operation of the history
        const bool inject = cli.fail_at > 0 && i + 1 == h.size();
        if (inject) env::L().fail_at = cli.fail_at;
        env::L().faults_thrown = 0;
        bool ok = e.apply(h[i]);
        env::L().fail_at = 0;
        in_fault = inject;
        if (inject && !ok)
            e.after_fault_monitors();
        else if (inject && env::L().faults_thrown > 0)
            env::report("C17", "faults", "exception-swallowed", "an allocation failure did not propagate to the caller");
        else
        {
            e.transition_monitors(pre, h[i]);
            e.inspect();
        }
        std::printf("step %zu %s %s canon=%s\n", i, op_str(h[i]).c_str(), ok ? "" : "(bad_alloc)", e.canon().c_str());
        for (int t = 0; t < 2; ++t)
            if (e.m[t].present)
            {
                std::printf("   model v%d: cap=%zu budget=%zu size=%zu%s :", t, e.m[t].cap, e.m[t].budget, e.m[t].el.size(),
                            e.m[t].moved ? " (moved-from)" : "");
                for (auto& el : e.m[t].el) std::printf(" %s", to_string(el).c_str());
                std::printf("\n");
            }
        for (auto& v : env::viols())
        {
            bool r = false;
            for (auto& p : cli.prm.active) r = r || relevant(p, v.props, e.ctx(), in_fault);
            std::printf("   %s [%s] %s|%s: %s\n", r ? "VIOLATION" : "(other)", v.props.c_str(), v.monitor.c_str(),
                        v.discr.c_str(), v.msg.c_str());
            bad += r;
        }
    }
    env::viols().clear();
    e.last = Op{};
    e.terminal_check();
    for (auto& v : env::viols())
    {
        bool r = false;
        for (auto& p : cli.prm.active) r = r || relevant(p, v.props, e.ctx(), in_fault);
        std::printf("   terminal %s [%s] %s|%s: %s\n", r ? "VIOLATION" : "(other)", v.props.c_str(), v.monitor.c_str(),
                    v.discr.c_str(), v.msg.c_str());
        bad += r;
    }
    std::printf("replay done: %d relevant violation(s)\n", bad);
    return bad ? 1 : 0;
}

int main(int argc, char** argv)
{
    Cli cli;
    std::string props = "C01";
    for (int i = 1; i < argc; ++i)
    {
        std::string a = argv[i];
        auto next = [&]() -> std::string { return i + 1 < argc ? argv[++i] : ""; };
        if (a == "--mode") cli.prm.mode = next();
        else if (a == "--prop") props = next();
        else if (a == "--nmax") cli.prm.nmax = std::atoi(next().c_str());
        else if (a == "--cmax") cli.prm.cmax = std::atoi(next().c_str());
        else if (a == "--cscale") cli.prm.cscale = std::max(1, std::atoi(next().c_str()));
        else if (a == "--bmax") cli.prm.bmax = std::atoi(next().c_str());
        else if (a == "--depth") cli.prm.depth = std::atoi(next().c_str());
        else if (a == "--arena1") cli.prm.arena1 = std::atoi(next().c_str());
        else if (a == "--junk") cli.junk = std::atoi(next().c_str());
        else if (a == "--base") cli.base = std::atoi(next().c_str());
        else if (a == "--workers") cli.workers = std::max(1, std::atoi(next().c_str()));
        else if (a == "--deadline") cli.deadline = std::atof(next().c_str());
        else if (a == "--out") cli.out = next();
        else if (a == "--tmpdir") cli.tmpdir = next();
        else if (a == "--replay") cli.replay = next();
        else if (a == "--fail-at") cli.fail_at = std::atoi(next().c_str());
        else if (a == "--fault-ops") cli.prm.fault_ops = std::atoi(next().c_str());
        else if (a == "--wide") cli.prm.wide = std::atoi(next().c_str());
        else if (a == "--max-states") cli.max_states = std::atol(next().c_str());
        else if (a == "--no-terminal") cli.terminal = false;
        else if (a == "--faults") cli.faults = std::atoi(next().c_str());
        else if (a == "--verbose") cli.verbose = true;
        else if (a == "--prune-tags")
        {
            for (auto& t : split(next(), ',')) cli.prune_tags.insert(t);
        }
        else if (a == "--fixed")
        {
            cli.prm.fixed_choices.clear();
            for (auto& s : split(next(), ',')) cli.prm.fixed_choices.push_back(std::atoi(s.c_str()));
        }
        else
        {
            std::cerr << "unknown argument " << a << "\n";
            return 2;
        }
    }
    for (auto& p : split(props, ',')) cli.prm.active.insert(p);
    __asan_set_error_report_callback(asan_cb);
    signal(SIGPIPE, SIG_IGN);
    if (!cli.replay.empty()) return replay_main(cli);

    const double t0 = now();
    mkdir(cli.tmpdir.c_str(), 0777);
    const std::string tmpbase = cli.tmpdir + "/eng." + std::to_string(getpid());
    nodes.push_back(Node{-1, Op{}, 0, 0, 0});
    node_canon.push_back("-");
    std::unordered_set<std::string> visited;
    std::unordered_set<std::string> obs_seen;
    std::map<std::string, Found> found;  // by props|monitor|opname|discr
    std::map<std::string, long> monitor_counts;
    std::vector<long> frontier{0};
    long transitions = 0, states = 0, foreign_pruned = 0, crashes = 0, terminal_checks = 0, fault_runs = 0, known_pruned = 0;
    int depth_completed = -1;
    bool exhausted_deadline = false, fixpoint = false, internal_error = false;
    std::string internal_msg;
    std::vector<std::string> samples;
    int level = 0;
    while (!frontier.empty())
    {
        if (now() - t0 > cli.deadline || static_cast<long>(nodes.size()) > cli.max_states)
        {
            exhausted_deadline = true;
            break;
        }
        // fork workers (supervisors); each runs sub-workers that execute transitions in-process and are
        // replaced when they die or have seen anything suspicious
        const int W = std::min<long>(cli.workers, static_cast<long>(frontier.size()));
        std::vector<pid_t> pids;
        for (int w = 0; w < W; ++w)
        {
            pid_t pid = fork();
            if (pid == 0)
            {
                const std::string fn = tmpbase + "." + std::to_string(w);
                int fd = open(fn.c_str(), O_WRONLY | O_CREAT | O_TRUNC | O_APPEND, 0666);
                std::vector<long> mine;
                for (size_t k = static_cast<size_t>(w); k < frontier.size(); k += static_cast<size_t>(W)) mine.push_back(frontier[k]);
                g_prog = static_cast<Progress*>(
                    mmap(nullptr, sizeof(Progress), PROT_READ | PROT_WRITE, MAP_SHARED | MAP_ANONYMOUS, -1, 0));
                std::memset(g_prog, 0, sizeof(Progress));
                g_prog_crash = g_prog->crash;
                g_prog->op = -1;
                long pos = 0;
                int op_resume = -1, fail_resume = 0;  // where the next sub-worker continues
                while (pos < static_cast<long>(mine.size()))
                {
                    if (now() - t0 > cli.deadline + 20) break;
                    pid_t c = fork();
                    if (c == 0)
                    {
                        g_pipe_fd = fd;
                        for (long q = pos; q < static_cast<long>(mine.size()); ++q)
                        {
                            if (now() - t0 > cli.deadline + 20) _exit(5);
                            const long idx = mine[static_cast<size_t>(q)];
                            const History hist = history_of(idx);
                            g_prog->pos = q;
                            g_prog->done_state = 0;
                            g_prog->op = -1;
                            g_prog->in_flight = 1;
                            std::snprintf(g_prog->opstr, sizeof g_prog->opstr, "<replay>");
                            g_prog->tag[0] = 0;
                            cpu_limit(20);
                            Eng* e = replay_state(cli, hist);
                            if (!hist.empty() && node_canon[static_cast<size_t>(idx)] != "-" &&
                                e->canon() != node_canon[static_cast<size_t>(idx)])
                            {
                                write_all(fd, "X\t" + std::to_string(idx) + "\tcanon on replay (" + e->canon() + ") differs from canon at discovery (" +
                                                  node_canon[static_cast<size_t>(idx)] + "): " + history_str(hist) + "\n");
                                _exit(0);
                            }
                            const std::vector<Op> ops = hist.empty() ? e->initial_ops() : e->enabled();
                            if (!nodes[static_cast<size_t>(idx)].polluted)
                            {
                                e->terminal_check();
                                delete e;
                            }
                            // (a polluted state is not destroyed: its objects may be inconsistent; it is leaked)
                            cpu_limit(0);
                            g_prog->in_flight = 0;
                            const bool resumed = q == pos && op_resume >= 0;
                            if (!resumed) write_all(fd, "B\t" + std::to_string(idx) + "\t" + std::to_string(ops.size()) + "\n");
                            for (int k = resumed ? op_resume : 0; k < static_cast<int>(ops.size()); ++k)
                            {
                                const Op& o = ops[static_cast<size_t>(k)];
                                unsigned allocs = 0, kmax = 0;
                                for (int f = (resumed && k == op_resume) ? fail_resume : 0; f <= static_cast<int>(kmax); ++f)
                                {
                                    g_prog->op = k;
                                    g_prog->fail_at = f;
                                    std::snprintf(g_prog->opstr, sizeof g_prog->opstr, "%s", op_str(o).c_str());
                                    g_prog->crash[0] = 0;
                                    g_prog->in_flight = 1;
                                    const bool clean = run_transition(cli, hist, o, fd, f, allocs);
                                    g_prog->in_flight = 0;
                                    if (f == 0 && cli.faults && !hist.empty()) kmax = std::min(allocs, 8u);
                                    if (resumed && k == op_resume && f > 0 && kmax == 0) kmax = 8;  // resumed inside a fault loop
                                    if (!clean) _exit(4);  // ask for a fresh process, continue after this transition
                                }
                            }
                            g_prog->op = static_cast<int>(ops.size());
                            g_prog->done_state = 1;
                            write_all(fd, "D\n");
                        }
                        _exit(0);
                    }
                    int st = 0;
                    waitpid(c, &st, 0);
                    const bool normal = WIFEXITED(st) && (WEXITSTATUS(st) == 0 || WEXITSTATUS(st) == 5);
                    if (normal) break;
                    const bool restart_request = WIFEXITED(st) && WEXITSTATUS(st) == 4;
                    pos = g_prog->pos;
                    if (!restart_request)
                    {
                        // the sub-worker died inside the transition recorded in g_prog
                        std::string why = WIFSIGNALED(st) ? "signal " + std::to_string(WTERMSIG(st))
                                                          : "exit " + std::to_string(WEXITSTATUS(st));
                        if (WIFSIGNALED(st) && (WTERMSIG(st) == SIGALRM || WTERMSIG(st) == SIGPROF)) why = "timeout";
                        if (g_prog->crash[0]) why = std::string(g_prog->crash) + "," + why;
                        if (g_prog->tag[0]) why += std::string("@") + g_prog->tag;
                        if (g_prog->op < 0 && nodes[static_cast<size_t>(mine[static_cast<size_t>(pos)])].polluted)
                        {
                            // the state was already inconsistent under another property's monitors: it cannot be explored
                            write_all(fd, "B\t" + std::to_string(mine[static_cast<size_t>(pos)]) + "\t0\nD\n");
                            ++pos;
                            op_resume = -1;
                            fail_resume = 0;
                            continue;
                        }
                        if (g_prog->op < 0)
                        {
                            write_all(fd, "X\t" + std::to_string(mine[static_cast<size_t>(pos)]) +
                                              "\tstate replay died (" + why + "): " +
                                              history_str(history_of(mine[static_cast<size_t>(pos)])) + "\n");
                            break;
                        }
                        write_all(fd, "K\t" + std::string(g_prog->opstr) + "\t" + why + "\t" + std::to_string(g_prog->fail_at) + "\t" +
                                          std::to_string(g_prog->pre_empty) + "\t" + std::to_string(g_prog->seen_pair_op) + "\t" +
                                          std::to_string(g_prog->fill_phase) + "\t" + std::to_string(g_prog->fault_seen) + "\n");
                    }
                    // continue behind the transition that was in flight
                    if (g_prog->done_state)
                    {
                        ++pos;
                        op_resume = -1;
                        fail_resume = 0;
                    }
                    else if (cli.faults && !history_of(mine[static_cast<size_t>(pos)]).empty() && g_prog->fail_at < 8)
                    {
                        op_resume = g_prog->op;
                        fail_resume = g_prog->fail_at + 1;
                    }
                    else
                    {
                        op_resume = g_prog->op + 1;
                        fail_resume = 0;
                    }
                }
                close(fd);
                _exit(0);
            }
            pids.push_back(pid);
        }
        for (auto p : pids)
        {
            int st;
            waitpid(p, &st, 0);
        }
        // merge, in deterministic order (state index, op order)
        struct Pending
        {
            long state;
            int seq;
            Rec rec;
        };
        std::vector<Pending> pend;
        std::set<long> completed_states;
        for (int w = 0; w < W; ++w)
        {
            const std::string fn = tmpbase + "." + std::to_string(w);
            std::ifstream in(fn);
            std::string line;
            long cur = -1;
            int seq = 0;
            Rec* open_rec = nullptr;
            std::vector<Pending> local;
            std::string pending_crash, pending_tag;
            while (std::getline(in, line))
            {
                auto f = split(line, '\t');
                if (f[0] == "B")
                {
                    cur = std::atol(f[1].c_str());
                    seq = 0;
                }
                else if (f[0] == "T")
                {
                    pending_tag.clear();
                    local.push_back(Pending{cur, seq++, Rec{}});
                    open_rec = &local.back().rec;
                    open_rec->state = cur;
                    open_rec->op = f[1];
                    open_rec->verdict = f[2];
                    open_rec->canon = f[3];
                    open_rec->obs = f[4];
                    open_rec->xd = std::atoi(f[5].c_str());
                    open_rec->foreign = static_cast<unsigned>(std::atoi(f[6].c_str()));
                    if (f.size() > 7) open_rec->fail_at = std::atoi(f[7].c_str());
                    if (f.size() > 7 && f[7] != "0") open_rec->verdict = open_rec->verdict == "OK" ? "FAULT-OK" : "FAULT-" + open_rec->verdict;
                    if (f.size() > 9 && f[9] != "-") open_rec->tag = f[9];
                }
                else if (f[0] == "N")
                {
                }
                else if (f[0] == "V" && open_rec)
                {
                    auto g = split(f[1], '\x1f');
                    if (g.size() >= 4) open_rec->viols.push_back(env::Viol{g[0], g[1], g[2], g[3]});
                }
                else if (f[0] == "C")
                {
                    pending_crash = f[1];
                }
                else if (f[0] == "G")
                {
                    pending_tag = f[1];
                }
                else if (f[0] == "K")
                {
                    local.push_back(Pending{cur, seq++, Rec{}});
                    Rec& r = local.back().rec;
                    r.state = cur;
                    r.op = f[1];
                    r.verdict = "CRASH";
                    r.crash = (pending_crash.empty() ? "" : pending_crash + ",") + f[2] +
                              (pending_tag.empty() ? "" : "@" + pending_tag);
                    if (f.size() > 3 && f[3] != "0") r.verdict = "FAULT-CRASH";
                    else if (f.size() > 6)
                    {
                        Ctx cx;
                        parse_op(f[1], cx.last);
                        cx.pre_empty = f[4] == "1";
                        cx.seen_pair_op = f[5] == "1";
                        cx.fill_phase = f[6] == "1";
                        cx.fault_seen = f.size() > 7 && f[7] == "1";
                        bool rel = false;
                        for (auto& p : cli.prm.active) rel = rel || relevant(p, "CRASH", cx, false);
                        if (!rel) r.verdict = "FOREIGN-CRASH";
                    }
                    pending_crash.clear();
                    pending_tag.clear();
                    open_rec = nullptr;
                }
                else if (f[0] == "S")
                {
                    local.push_back(Pending{cur, 1000000, Rec{}});
                    open_rec = &local.back().rec;
                    open_rec->state = cur;
                    open_rec->op = "<destroy-all>";
                    open_rec->verdict = "TERMINAL";
                }
                else if (f[0] == "E")
                {
                    open_rec = nullptr;
                }
                else if (f[0] == "D")
                {
                    completed_states.insert(cur);
                }
                else if (f[0] == "X")
                {
                    internal_error = true;
                    internal_msg = line;
                }
            }
            for (auto& p : local) pend.push_back(std::move(p));
            unlink(fn.c_str());
        }
        if (internal_error) break;
        std::sort(pend.begin(), pend.end(),
                  [](const Pending& a, const Pending& b) { return a.state != b.state ? a.state < b.state : a.seq < b.seq; });
        std::vector<long> next;
        for (auto& p : pend)
        {
            Rec& r = p.rec;
            const Node& par = nodes[static_cast<size_t>(r.state)];
            auto note = [&](const env::Viol& v)
            {
                Op o;
                std::string opname = r.op.substr(0, r.op.find('('));
                const std::string key = v.props + "|" + v.monitor + "|" + opname + "|" + v.discr;
                ++monitor_counts[v.monitor];
                auto it = found.find(key);
                if (it != found.end())
                {
                    ++it->second.count;
                    return;
                }
                History h = history_of(r.state);
                std::string hs = history_str(h);
                if (r.op != "<destroy-all>") hs += (hs.empty() ? "" : ";") + r.op;
                found[key] = Found{v.props, v.monitor, v.discr, v.msg, hs, opname, 1, r.fail_at};
                (void)o;
            };
            if (r.verdict == "TERMINAL")
            {
                ++terminal_checks;
                for (auto& v : r.viols) note(v);
                continue;
            }
            if (r.verdict.rfind("FAULT-", 0) == 0)
            {
                ++fault_runs;
                if (r.verdict == "FAULT-CRASH")
                    note(env::Viol{"C17", "faults", "crash:" + r.crash, "process died while an allocation failure was injected: " + r.crash});
                for (auto& v : r.viols) note(v);
                continue;
            }
            ++transitions;
            obs_seen.insert(r.obs);
            if (r.verdict == "CRASH")
            {
                ++crashes;
                note(env::Viol{"CRASH", "crash", r.crash, "operation did not complete: " + r.crash});
                continue;
            }
            if (r.verdict == "VIOL")
            {
                for (auto& v : r.viols) note(v);
                continue;
            }
            if (r.verdict == "OK") ++terminal_checks;
            if (!r.tag.empty() && cli.prune_tags.count(r.tag) && r.verdict != "VIOL" && r.verdict != "CRASH")
            {
                // the operation ran into a recorded known finding (identified by its context tag): whatever this
                // check's own monitors said about the transition has been noted above; the state is polluted by a
                // defect that is already on record and is not explored further
                ++known_pruned;
                continue;
            }
            if (r.verdict == "FOREIGN-CRASH")
            {
                // the operation did not complete, but the crash belongs to another property: nothing to expand
                ++foreign_pruned;
                continue;
            }
            if (r.verdict == "FOREIGN")
            {
                // only monitors of other properties fired: counted, not reported here, and the state is still
                // expanded - a defect that first shows up under another property's monitor must not hide the
                // violations of this property that follow from it
                ++foreign_pruned;
            }
            if (visited.insert(r.canon).second)
            {
                Op o;
                parse_op(r.op, o);
                const uint16_t d = static_cast<uint16_t>(par.depth + (r.xd ? 0 : 1));
                nodes.push_back(Node{static_cast<int>(r.state), o, d, static_cast<uint8_t>(r.xd),
                                     static_cast<uint8_t>(par.polluted || r.verdict == "FOREIGN")});
                node_canon.push_back(r.canon);
                ++states;
                const long idx = static_cast<long>(nodes.size()) - 1;
                if (samples.size() < 6 && (states % 97 == 1 || level >= 2)) samples.push_back(history_str(history_of(idx)));
                if (d < cli.prm.depth || r.xd) next.push_back(idx);
            }
        }
        if (completed_states.size() != frontier.size())
        {
            exhausted_deadline = true;  // a worker stopped early
            break;
        }
        depth_completed = level;
        ++level;
        frontier.swap(next);
    }
    if (frontier.empty() && !exhausted_deadline && !internal_error)
    {
        // did the search stop because nothing new appeared or because of the depth bound?
        bool any_at_bound = false;
        for (auto& n : nodes) any_at_bound = any_at_bound || (n.depth >= cli.prm.depth && !n.xd);
        fixpoint = !any_at_bound;
    }
    // ------------------------------------------------------------ result
    std::ostringstream js;
    js << "{\n \"list\": \"" << HX_STR(CFG_LIST) << "\", \"alloc\": \"" << HX_STR(CFG_ALLOC) << "\", \"class\": \""
       << config_class() << "\",\n";
    js << " \"mode\": \"" << cli.prm.mode << "\", \"props\": \"" << props << "\", \"junk\": " << cli.junk
       << ", \"base\": " << cli.base << ", \"arena1\": " << cli.prm.arena1 << ", \"faults\": " << cli.faults << ",\n";
    js << " \"nmax\": " << cli.prm.nmax << ", \"cmax\": " << cli.prm.cmax << ", \"cscale\": " << cli.prm.cscale << ", \"bmax\": " << cli.prm.bmax
       << ", \"depth_bound\": " << cli.prm.depth << ",\n";
    js << " \"states\": " << states << ", \"transitions\": " << transitions << ", \"terminal_checks\": " << terminal_checks
       << ", \"fault_runs\": " << fault_runs << ", \"foreign_seen\": " << foreign_pruned << ", \"crashes\": " << crashes
       << ", \"known_pruned\": " << known_pruned << ",\n";
    js << " \"distinct_observations\": " << obs_seen.size() << ", \"depth_completed\": " << depth_completed
       << ", \"fixpoint\": " << (fixpoint ? "true" : "false") << ", \"deadline_hit\": " << (exhausted_deadline ? "true" : "false")
       << ",\n";
    js << " \"internal_error\": " << (internal_error ? "true" : "false") << ", \"internal_msg\": \"" << json_escape(internal_msg)
       << "\",\n";
    js << " \"wall_s\": " << (now() - t0) << ",\n \"samples\": [";
    for (size_t i = 0; i < samples.size(); ++i) js << (i ? ", " : "") << "\"" << json_escape(samples[i]) << "\"";
    js << "],\n \"violations\": [";
    bool first = true;
    for (auto& kv : found)
    {
        const Found& f = kv.second;
        js << (first ? "\n" : ",\n") << "  {\"props\": \"" << f.props << "\", \"monitor\": \"" << f.monitor << "\", \"discr\": \""
           << json_escape(f.discr) << "\", \"op\": \"" << f.op << "\", \"msg\": \"" << json_escape(f.msg)
           << "\", \"history\": \"" << json_escape(f.history) << "\", \"fail_at\": " << f.fail_at << ", \"count\": " << f.count << "}";
        first = false;
    }
    js << "\n ]\n}\n";
    if (cli.out.empty())
        std::cout << js.str();
    else
    {
        std::ofstream o(cli.out);
        o << js.str();
    }
    if (internal_error) return 2;
    return found.empty() ? 0 : 1;
}
