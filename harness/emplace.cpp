// emplace engine (C15): full matrix stored type T x source value type S x source form x length for a
// FixedSize and a VaryingSize parameter. One binary per type pair: -DCFG_PAIR=<n>
#include "core.hpp"

#include <array>
#include <chrono>
#include <deque>
#include <cstdio>
#include <fstream>
#include <iterator>
#include <list>
#include <map>
#include <sstream>
#include <string>

using namespace hx;

void* operator new(std::size_t n)
{
    void* p = std::malloc(n ? n : 1);
    if (!p) throw std::bad_alloc();
    return p;
}
void operator delete(void* p) noexcept { std::free(p); }
void operator delete(void* p, std::size_t) noexcept { std::free(p); }

static void asan_cb(const char* text)
{
    env::HarnessScope hs;
    std::string cls = "unknown";
    if (const char* p = std::strstr(text, "AddressSanitizer: "))
    {
        p += 18;
        const char* e = p;
        while (*e && *e != ' ' && *e != '\n' && *e != ':') ++e;
        cls.assign(p, e);
    }
    env::report("C15", "asan", cls, "AddressSanitizer: %s during emplace_back", cls.c_str());
}

// ---------------------------------------------------------------- value types of the matrix
using i8 = signed char;
using i32 = int;
enum UE8 : u8
{
    UE8_A = 0
};
struct Conv  // trivially copyable class with a transforming converting constructor
{
    int v;
    Conv(int x) : v(x * 2 + 1) {}
};
struct Src  // trivially copyable class with a transforming conversion operator
{
    int x;
    operator int() const { return x * 3 + 1; }
};
static_assert(std::is_trivially_copyable_v<Conv> && std::is_trivially_copyable_v<Src>);

static const int RAW[4] = {2, 3, 200, 77};

template <class S>
static S make_s(int raw)
{
    if constexpr (std::is_same_v<S, std::string>)
        return "a very long source string #" + std::to_string(raw);
    else if constexpr (std::is_same_v<S, const char*>)
    {
        static const char* table[4] = {"first long c string literal ....", "second long c string literal ...", "third long c string literal ....",
                                       "fourth long c string literal ..."};
        return table[raw % 4];
    }
    else if constexpr (std::is_same_v<S, f32>)
        return static_cast<float>(raw) + 0.75f;
    else if constexpr (std::is_same_v<S, Src>)
        return Src{raw};
    else if constexpr (IS_TRACKED<S>)
        return S(raw);
    else if constexpr (std::is_same_v<S, UE8>)
        return static_cast<UE8>(raw);
    else
        return static_cast<S>(raw);
}

// comparable representation of a stored T
template <class T>
static std::string repr(const T& t)
{
    if constexpr (IS_TRACKED<T>)
    {
        t.check("read");
        return "trk:" + std::to_string(t.val);
    }
    else if constexpr (std::is_same_v<T, std::string>)
        return "str:" + t;
    else
    {
        static_assert(std::is_trivially_copyable_v<T>);
        std::string s = "bytes:";
        auto* p = reinterpret_cast<const unsigned char*>(&t);
        char buf[4];
        for (std::size_t i = 0; i < sizeof(T); ++i)
        {
            std::snprintf(buf, sizeof buf, "%02x", p[i]);
            s += buf;
        }
        return s;
    }
}

// expected stored object: T constructed from (a copy of) the source item
template <class T, class S>
static std::string expected(int raw)
{
    if constexpr (IS_TRACKED<T>)
        return "trk:" + std::to_string(raw);
    else
    {
        S s = make_s<S>(raw);
        T t(static_cast<S&&>(s));
        return repr(t);
    }
}

struct Stats
{
    long cells = 0, objects = 0, forms = 0;
    std::vector<std::string> samples;
};
static Stats G;

struct Found
{
    std::string discr, msg;
    long count = 0;
};
static std::map<std::string, Found> g_found;
static std::string g_pair;

static void flush(const std::string& cell)
{
    for (auto& v : env::viols())
    {
        auto& f = g_found[v.monitor + "|" + v.discr];
        if (f.count++ == 0) f = Found{v.monitor + "|" + v.discr, v.msg + " [" + cell + "]", 1};
    }
    env::viols().clear();
}

// single-pass generated range / counting input iterator
template <class S>
struct CountingIt
{
    using iterator_category = std::input_iterator_tag;
    using value_type = S;
    using difference_type = std::ptrdiff_t;
    using pointer = const S*;
    using reference = S;
    int i = 0;
    int* derefs = nullptr;
    S operator*() const
    {
        if (derefs) ++*derefs;
        return make_s<S>(RAW[i % 4]);
    }
    CountingIt& operator++()
    {
        ++i;
        return *this;
    }
    CountingIt operator++(int)
    {
        auto c = *this;
        ++i;
        return c;
    }
    bool operator==(const CountingIt& o) const { return i == o.i; }
    bool operator!=(const CountingIt& o) const { return i != o.i; }
};
template <class S>
struct CountingRange
{
    int n;
    int* derefs;
    CountingIt<S> begin() const { return {0, derefs}; }
    CountingIt<S> end() const { return {n, derefs}; }
};

// a genuinely single-pass range (like std::istream_iterator): the position is shared state of the range, advancing any
// iterator consumes an item for all of them, begin() continues where the stream is
template <class S>
struct StreamIt
{
    using iterator_category = std::input_iterator_tag;
    using value_type = S;
    using difference_type = std::ptrdiff_t;
    using pointer = const S*;
    using reference = S;
    int* pos = nullptr;
    int limit = 0;
    bool is_end = false;
    int* derefs = nullptr;
    S operator*() const
    {
        if (derefs) ++*derefs;
        return make_s<S>(RAW[*pos % 4]);
    }
    StreamIt& operator++()
    {
        ++*pos;
        return *this;
    }
    void operator++(int) { ++*pos; }
    bool at_end() const { return is_end || *pos >= limit; }
    bool operator==(const StreamIt& o) const { return at_end() == o.at_end(); }
    bool operator!=(const StreamIt& o) const { return at_end() != o.at_end(); }
};
template <class S>
struct StreamRange
{
    int n;
    int* pos;
    int* derefs;
    StreamIt<S> begin() const { return {pos, n, false, derefs}; }
    StreamIt<S> end() const { return {pos, n, true, derefs}; }
};

template <class T>
using Opt = cntgs::Options<cntgs::Allocator<Ledger<std::byte, Tr<false, false, false, true, false>>>>;
template <class T>
using FVec = cntgs::BasicContiguousVector<Opt<T>, cntgs::FixedSize<T>>;
template <class T>
using VVec = cntgs::BasicContiguousVector<Opt<T>, u32, cntgs::VaryingSize<T>>;

enum SrcPost
{
    POST_NONE,       // nothing to check on the source (temporaries, generated)
    POST_UNCHANGED,  // lvalue source: must be left unmodified (tracked: not moved from, copied exactly once per item)
    POST_MOVED       // rvalue range / move_iterator: every item moved from exactly once, no copies
};

// random access iterator over every second item of an array: pointer-sized, lvalue reference, operator-> - everything a
// contiguous iterator has, except contiguity
template <class S>
struct StrideIt
{
    using iterator_category = std::random_access_iterator_tag;
    using value_type = S;
    using difference_type = std::ptrdiff_t;
    using pointer = S*;
    using reference = S&;
    S* p = nullptr;
    reference operator*() const { return *p; }
    pointer operator->() const { return p; }
    reference operator[](difference_type n) const { return p[2 * n]; }
    StrideIt& operator++() { p += 2; return *this; }
    StrideIt operator++(int) { auto c = *this; p += 2; return c; }
    StrideIt& operator--() { p -= 2; return *this; }
    StrideIt operator--(int) { auto c = *this; p -= 2; return c; }
    StrideIt& operator+=(difference_type n) { p += 2 * n; return *this; }
    StrideIt& operator-=(difference_type n) { p -= 2 * n; return *this; }
    friend StrideIt operator+(StrideIt a, difference_type n) { return a += n; }
    friend StrideIt operator+(difference_type n, StrideIt a) { return a += n; }
    friend StrideIt operator-(StrideIt a, difference_type n) { return a -= n; }
    friend difference_type operator-(StrideIt a, StrideIt b) { return (a.p - b.p) / 2; }
    friend bool operator==(StrideIt a, StrideIt b) { return a.p == b.p; }
    friend bool operator!=(StrideIt a, StrideIt b) { return a.p != b.p; }
    friend bool operator<(StrideIt a, StrideIt b) { return a.p < b.p; }
    friend bool operator>(StrideIt a, StrideIt b) { return a.p > b.p; }
    friend bool operator<=(StrideIt a, StrideIt b) { return a.p <= b.p; }
    friend bool operator>=(StrideIt a, StrideIt b) { return a.p >= b.p; }
};

// run one cell: `emplace(vec)` performs the emplace_back with the source under test
template <class T, class S, bool Varying, class EmplaceFn, class SrcCheck>
static void cell(const char* form, int n, EmplaceFn&& emplace_fn, SrcPost post, SrcCheck&& src_check)
{
    ++G.cells;
    G.objects += n;
    const std::string name = g_pair + " " + (Varying ? "VaryingSize " : "FixedSize ") + form + " n=" + std::to_string(n);
    if (G.samples.size() < 5 && G.cells % 41 == 3) G.samples.push_back(name);
    R().reset_counters();
    {
        std::vector<std::string> got;
        if constexpr (Varying)
        {
            VVec<T> v(1, static_cast<std::size_t>(n) * sizeof(T));
            emplace_fn(v);
            if (v.size() != 1)
                report("C15", "emplace", "size", "size() == %zu after one emplace_back", v.size());
            else
            {
                auto span = cntgs::get<1>(v[0]);
                if (span.size() != static_cast<std::size_t>(n))
                    report("C15", "emplace", "span-size", "stored span has %zu objects, expected %d", span.size(), n);
                else
                    for (auto& x : span) got.push_back(repr(x));
            }
        }
        else
        {
            FVec<T> v(1, {static_cast<std::size_t>(n)});
            emplace_fn(v);
            if (v.size() != 1)
                report("C15", "emplace", "size", "size() == %zu after one emplace_back", v.size());
            else
            {
                auto span = cntgs::get<0>(v[0]);
                if (span.size() != static_cast<std::size_t>(n))
                    report("C15", "emplace", "span-size", "stored span has %zu objects, expected %d", span.size(), n);
                else
                    for (auto& x : span) got.push_back(repr(x));
            }
        }
        for (std::size_t i = 0; i < got.size(); ++i)
        {
            const std::string want = expected<T, S>(RAW[i % 4]);
            if (got[i] != want)
            {
                report("C15", "emplace", std::string("stored!=T(src):") + (std::is_same_v<T, S> ? "same-type" : "converting"),
                       "stored object %zu is %s, T(source item) is %s", i, got[i].c_str(), want.c_str());
                break;
            }
        }
        if constexpr (IS_TRACKED<S> && IS_TRACKED<T>)
        {
            if (post == POST_MOVED)
            {
                if (R().copy_ctor != 0) report("C15", "emplace", "rvalue-source-copied", "%lu copies from an rvalue source", R().copy_ctor);
            }
        }
        src_check();
    }
    if (!R().live.empty() && IS_TRACKED<T>)
    {
        // everything (vector, sources) is destroyed here
    }
    flush(name);
}

template <class S>
static std::vector<S> make_vec(int n)
{
    std::vector<S> v;
    v.reserve(static_cast<std::size_t>(n));
    for (int i = 0; i < n; ++i) v.push_back(make_s<S>(RAW[i % 4]));
    return v;
}

template <class S, class C>
static void check_unchanged(const C& c, const char* what)
{
    int i = 0;
    for (auto& x : c)
    {
        if constexpr (IS_TRACKED<S>)
        {
            if (x.val != RAW[i % 4]) report("C15", "emplace", std::string("lvalue-source-modified:") + what, "item %d of an lvalue source now has value %d", i, x.val);
        }
        else if constexpr (std::is_same_v<S, std::string>)
        {
            if (x != make_s<S>(RAW[i % 4])) report("C15", "emplace", std::string("lvalue-source-modified:") + what, "item %d of an lvalue source changed", i);
        }
        ++i;
    }
}
template <class S, class C>
static void check_moved(const C& c, const char* what)
{
    if constexpr (IS_TRACKED<S>)
    {
        int i = 0;
        for (auto& x : c)
        {
            if (x.val != MOVED) report("C15", "emplace", std::string("rvalue-source-not-moved:") + what, "item %d of an rvalue source was not moved from", i);
            ++i;
        }
    }
    else
    {
        (void)c;
        (void)what;
    }
}

template <class S, std::size_t... I, class F>
static void with_carray(const std::vector<S>& tmp, std::index_sequence<I...>, F&& f)
{
    S carr[sizeof...(I)] = {tmp[I]...};
    f(carr);
}
template <class S, std::size_t... I>
static std::array<S, sizeof...(I)> make_array(const std::vector<S>& tmp, std::index_sequence<I...>)
{
    return std::array<S, sizeof...(I)>{tmp[I]...};
}

template <class T, class S, bool Varying, int N>
static void forms_for_length()
{
    constexpr bool S_COPY = std::is_copy_constructible_v<S>;
    constexpr bool T_FROM_LV = std::is_constructible_v<T, const S&>;
    constexpr bool T_FROM_RV = std::is_constructible_v<T, S&&>;
    auto emp = [](auto& v, auto&& src)
    {
        L().in_lib = true;
        if constexpr (Varying)
            v.emplace_back(static_cast<u32>(N), std::forward<decltype(src)>(src));
        else
            v.emplace_back(std::forward<decltype(src)>(src));
        L().in_lib = false;
    };
    // ---- ranges
    if constexpr (T_FROM_LV)
    {
        {
            auto s = make_vec<S>(N);
            cell<T, S, Varying>("std::vector&", N, [&](auto& v) { emp(v, s); }, POST_UNCHANGED, [&] { check_unchanged<S>(s, "vector"); });
        }
        {
            const auto s = make_vec<S>(N);
            cell<T, S, Varying>("const std::vector&", N, [&](auto& v) { emp(v, s); }, POST_UNCHANGED, [&] { check_unchanged<S>(s, "const vector"); });
        }
        if constexpr (S_COPY)
        {
            auto tmp = make_vec<S>(N);
            std::list<S> s(tmp.begin(), tmp.end());
            cell<T, S, Varying>("std::list&", N, [&](auto& v) { emp(v, s); }, POST_UNCHANGED, [&] { check_unchanged<S>(s, "list"); });
        }
        if constexpr (S_COPY && N > 0)
        {
            auto tmp = make_vec<S>(N);
            with_carray<S>(tmp, std::make_index_sequence<N>{},
                           [&](auto& carr)
                           {
                               cell<T, S, Varying>("S(&)[N]", N, [&](auto& v) { emp(v, carr); }, POST_UNCHANGED,
                                                   [&] { check_unchanged<S>(carr, "c array"); });
                           });
        }
        if constexpr (S_COPY)
        {
            auto tmp = make_vec<S>(N);
            cntgs::Span<S> s(tmp.data(), tmp.data() + N);
            cell<T, S, Varying>("cntgs::Span<S>&", N, [&](auto& v) { emp(v, s); }, POST_UNCHANGED, [&] { check_unchanged<S>(tmp, "span"); });
            cntgs::Span<const S> cs(tmp.data(), tmp.data() + N);
            cell<T, S, Varying>("cntgs::Span<const S>&", N, [&](auto& v) { emp(v, cs); }, POST_UNCHANGED, [&] { check_unchanged<S>(tmp, "const span"); });
        }
        if constexpr (S_COPY)
        {
            auto tmp = make_vec<S>(N);
            auto s = make_array<S>(tmp, std::make_index_sequence<N>{});
            cell<T, S, Varying>("std::array&", N, [&](auto& v) { emp(v, s); }, POST_UNCHANGED, [&] { check_unchanged<S>(s, "array"); });
        }
        if constexpr (S_COPY && N == 1)
        {
            auto tmp = make_vec<S>(N);
            std::initializer_list<S> il{tmp[0]};
            cell<T, S, Varying>("std::initializer_list", N, [&](auto& v) { emp(v, il); }, POST_UNCHANGED, [&] { check_unchanged<S>(il, "initializer_list"); });
        }
        if constexpr (S_COPY && N == 2)
        {
            auto tmp = make_vec<S>(N);
            std::initializer_list<S> il{tmp[0], tmp[1]};
            cell<T, S, Varying>("std::initializer_list", N, [&](auto& v) { emp(v, il); }, POST_UNCHANGED, [&] { check_unchanged<S>(il, "initializer_list"); });
        }
        if constexpr (S_COPY && N == 3)
        {
            auto tmp = make_vec<S>(N);
            std::initializer_list<S> il{tmp[0], tmp[1], tmp[2]};
            cell<T, S, Varying>("std::initializer_list", N, [&](auto& v) { emp(v, il); }, POST_UNCHANGED, [&] { check_unchanged<S>(il, "initializer_list"); });
        }
    }
    if constexpr (T_FROM_RV)
    {
        {
            auto s = make_vec<S>(N);
            cell<T, S, Varying>("std::vector&&", N, [&](auto& v) { emp(v, std::move(s)); }, POST_MOVED, [&] { check_moved<S>(s, "vector"); });
        }
        {
            auto tmp = make_vec<S>(N);
            std::list<S> s(std::make_move_iterator(tmp.begin()), std::make_move_iterator(tmp.end()));
            cell<T, S, Varying>("std::list&&", N, [&](auto& v) { emp(v, std::move(s)); }, POST_MOVED, [&] { check_moved<S>(s, "list"); });
        }
        {
            int derefs = 0, pos = 0;
            StreamRange<S> stream{N, &pos, &derefs};
            cell<T, S, Varying>("stream range (shared position, no size())", N, [&](auto& v) { emp(v, stream); }, POST_NONE,
                                [&]
                                {
                                    if (derefs != N || pos != N)
                                        report("C15", "emplace", "stream-range:consumed", "a single-pass range of %d items was dereferenced %d times and advanced %d times", N, derefs, pos);
                                });
        }
        {
            int derefs = 0, pos = 0;
            StreamRange<S> stream{N, &pos, &derefs};
            cell<T, S, Varying>("rvalue stream range", N, [&](auto& v) { emp(v, std::move(stream)); }, POST_NONE,
                                [&]
                                {
                                    if (derefs != N || pos != N)
                                        report("C15", "emplace", "stream-range:consumed", "a single-pass rvalue range of %d items was dereferenced %d times and advanced %d times", N, derefs, pos);
                                });
        }
        {
            int derefs = 0;
            CountingRange<S> gen{N, &derefs};
            cell<T, S, Varying>("generated single-pass range", N, [&](auto& v) { emp(v, gen); }, POST_NONE,
                                [&]
                                {
                                    if (derefs != N) report("C15", "emplace", "generated-range:consumed", "a generated range of %d items was dereferenced %d times", N, derefs);
                                });
        }
    }
    // ---- iterators (FixedSize only)
    if constexpr (!Varying)
    {
        if constexpr (T_FROM_LV)
        {
            {
                auto s = make_vec<S>(N + 1);  // one more item than needed: exactly N must be consumed
                cell<T, S, Varying>("S*", N, [&](auto& v) { emp(v, s.data()); }, POST_UNCHANGED, [&] { check_unchanged<S>(s, "pointer"); });
                cell<T, S, Varying>("const S*", N, [&](auto& v) { emp(v, static_cast<const S*>(s.data())); }, POST_UNCHANGED,
                                    [&] { check_unchanged<S>(s, "const pointer"); });
                cell<T, S, Varying>("std::vector::iterator", N, [&](auto& v) { emp(v, s.begin()); }, POST_UNCHANGED,
                                    [&] { check_unchanged<S>(s, "vector iterator"); });
                cell<T, S, Varying>("std::vector::const_iterator", N, [&](auto& v) { emp(v, s.cbegin()); }, POST_UNCHANGED,
                                    [&] { check_unchanged<S>(s, "vector const_iterator"); });
            }
            if constexpr (S_COPY && N >= 2)
            {
                // a deque whose first item sits in the last slot of one block and the rest in the next block: a random
                // access iterator with operator-> that is NOT contiguous
                auto tmp = make_vec<S>(N + 1);
                std::deque<S> s;
                for (int i = 1; i <= N; ++i) s.push_back(tmp[static_cast<std::size_t>(i)]);
                s.push_front(tmp[0]);
                cell<T, S, Varying>("std::deque::iterator across blocks", N, [&](auto& v) { emp(v, s.begin()); }, POST_UNCHANGED,
                                    [&] { check_unchanged<S>(s, "deque iterator"); });
                cell<T, S, Varying>("std::deque& across blocks", N,
                                    [&](auto& v)
                                    {
                                        std::deque<S> exact(s.begin(), s.begin() + N);
                                        exact.clear();
                                        for (int i = 1; i < N; ++i) exact.push_back(tmp[static_cast<std::size_t>(i)]);
                                        exact.push_front(tmp[0]);
                                        emp(v, exact);
                                    },
                                    POST_NONE, [] {});
            }
            {
                // iterator adaptors over contiguous storage that are random access, pointer-sized and have operator->,
                // but do not walk the storage forwards: the items behind a reverse iterator read RAW[0], RAW[1], ...
                std::vector<S> s;
                s.reserve(static_cast<std::size_t>(N) + 1);
                for (int i = N; i >= 0; --i) s.push_back(make_s<S>(RAW[i % 4]));
                auto unchanged = [&]
                {
                    std::vector<int> vals;
                    if constexpr (IS_TRACKED<S>)
                        for (int i = 0; i <= N; ++i)
                            if (s[static_cast<std::size_t>(N - i)].val != RAW[i % 4])
                                report("C15", "emplace", "lvalue-source-modified:reverse iterator", "item %d of an lvalue source now has value %d", i,
                                       s[static_cast<std::size_t>(N - i)].val);
                };
                cell<T, S, Varying>("std::reverse_iterator<S*>", N, [&](auto& v) { emp(v, std::make_reverse_iterator(s.data() + s.size())); },
                                    POST_UNCHANGED, unchanged);
                cell<T, S, Varying>("std::reverse_iterator<const S*>", N,
                                    [&](auto& v) { emp(v, std::make_reverse_iterator(static_cast<const S*>(s.data()) + s.size())); }, POST_UNCHANGED,
                                    unchanged);
                cell<T, S, Varying>("std::vector::reverse_iterator", N, [&](auto& v) { emp(v, s.rbegin()); }, POST_UNCHANGED, unchanged);
                cell<T, S, Varying>("std::vector::const_reverse_iterator", N, [&](auto& v) { emp(v, s.crbegin()); }, POST_UNCHANGED, unchanged);
            }
            {
                // user-defined random access iterator over every second item of an array
                std::vector<S> s;
                s.reserve(2 * static_cast<std::size_t>(N) + 2);
                for (int i = 0; i <= N; ++i)
                {
                    s.push_back(make_s<S>(RAW[i % 4]));
                    s.push_back(make_s<S>(RAW[(i + 2) % 4]));
                }
                cell<T, S, Varying>("stride-2 pointer iterator", N, [&](auto& v) { emp(v, StrideIt<S>{s.data()}); }, POST_NONE, [] {});
            }
            if constexpr (S_COPY)
            {
                auto tmp = make_vec<S>(N + 1);
                std::list<S> s(tmp.begin(), tmp.end());
                cell<T, S, Varying>("std::list::iterator", N, [&](auto& v) { emp(v, s.begin()); }, POST_UNCHANGED, [&] { check_unchanged<S>(s, "list iterator"); });
            }
        }
        if constexpr (T_FROM_RV)
        {
            {
                int derefs = 0;
                CountingIt<S> it{0, &derefs};
                cell<T, S, Varying>("counting input iterator", N, [&](auto& v) { emp(v, it); }, POST_NONE,
                                    [&]
                                    {
                                        if (derefs != N) report("C15", "emplace", "input-iterator:consumed", "an input iterator was dereferenced %d times for %d items", derefs, N);
                                    });
            }
            {
                auto s = make_vec<S>(N + 1);
                cell<T, S, Varying>("std::move_iterator<S*>", N, [&](auto& v) { emp(v, std::make_move_iterator(s.data())); }, POST_MOVED,
                                    [&]
                                    {
                                        if constexpr (IS_TRACKED<S>)
                                        {
                                            for (int i = 0; i < N; ++i)
                                                if (s[static_cast<std::size_t>(i)].val != MOVED)
                                                    report("C15", "emplace", "rvalue-source-not-moved:move_iterator", "item %d behind a move_iterator was not moved from", i);
                                            if (s[static_cast<std::size_t>(N)].val == MOVED)
                                                report("C15", "emplace", "move_iterator:consumed-too-many", "an item behind the last needed one was moved from");
                                        }
                                    });
            }
            {
                auto s = make_vec<S>(N + 1);
                cell<T, S, Varying>("std::move_iterator<vector::iterator>", N, [&](auto& v) { emp(v, std::make_move_iterator(s.begin())); }, POST_MOVED,
                                    [&]
                                    {
                                        if constexpr (IS_TRACKED<S>)
                                        {
                                            for (int i = 0; i < N; ++i)
                                                if (s[static_cast<std::size_t>(i)].val != MOVED)
                                                    report("C15", "emplace", "rvalue-source-not-moved:move_iterator", "item %d behind a move_iterator was not moved from", i);
                                            if (s[static_cast<std::size_t>(N)].val == MOVED)
                                                report("C15", "emplace", "move_iterator:consumed-too-many", "an item behind the last needed one was moved from");
                                        }
                                    });
            }
            {
                std::vector<S> s;
                s.reserve(static_cast<std::size_t>(N) + 1);
                for (int i = N; i >= 0; --i) s.push_back(make_s<S>(RAW[i % 4]));
                cell<T, S, Varying>("std::move_iterator<reverse_iterator<S*>>", N,
                                    [&](auto& v) { emp(v, std::make_move_iterator(std::make_reverse_iterator(s.data() + s.size()))); }, POST_MOVED,
                                    [&]
                                    {
                                        if constexpr (IS_TRACKED<S>)
                                        {
                                            for (int i = 0; i < N; ++i)
                                                if (s[static_cast<std::size_t>(N - i)].val != MOVED)
                                                    report("C15", "emplace", "rvalue-source-not-moved:move_iterator", "item %d behind a move_iterator<reverse_iterator> was not moved from", i);
                                            if (s[0].val == MOVED)
                                                report("C15", "emplace", "move_iterator:consumed-too-many", "an item behind the last needed one was moved from");
                                        }
                                    });
            }
            {
                auto tmp = make_vec<S>(N + 1);
                std::list<S> s(std::make_move_iterator(tmp.begin()), std::make_move_iterator(tmp.end()));
                cell<T, S, Varying>("std::move_iterator<list::iterator>", N, [&](auto& v) { emp(v, std::make_move_iterator(s.begin())); }, POST_MOVED, [] {});
            }
        }
    }
}

template <class T, class S>
static void pair_all(const char* name)
{
    g_pair = name;
    env::reset_ledger();
    env::reset_registry();
    L().junk = JUNK_PATTERN;
    forms_for_length<T, S, false, 0>();
    forms_for_length<T, S, false, 1>();
    forms_for_length<T, S, false, 2>();
    forms_for_length<T, S, false, 3>();
    forms_for_length<T, S, true, 0>();
    forms_for_length<T, S, true, 1>();
    forms_for_length<T, S, true, 2>();
    forms_for_length<T, S, true, 3>();
    if (!R().live.empty()) env::report("C15", "emplace", "objects-leaked", "%zu tracked objects alive after all cells", R().live.size());
    flush(std::string(name) + " end");
}

#define PAIRS(X)                       \
    X(0, u32, u32)                     \
    X(1, f32, f32)                     \
    X(2, Trk, Trk)                     \
    X(3, TrkM, TrkM)                   \
    X(4, std::string, std::string)     \
    X(5, u32, i32)                     \
    X(6, u32, u16)                     \
    X(7, i8, u8)                       \
    X(8, bool, u8)                     \
    X(9, bool, char)                   \
    X(10, u8, UE8)                     \
    X(11, f32, i32)                    \
    X(12, i32, f32)                    \
    X(13, Conv, int)                   \
    X(14, int, Src)                    \
    X(15, std::string, const char*)    \
    X(16, u16, u32)                    \
    X(17, double, f32)                 \
    X(18, i32, u32)                    \
    X(19, long, int)                   \
    X(20, unsigned long, long)         \
    X(21, TrkN, TrkN)

int main(int argc, char** argv)
{
    std::string out;
    for (int i = 1; i < argc; ++i)
    {
        std::string a = argv[i];
        if (a == "--out") out = argv[++i];
    }
    __asan_set_error_report_callback(asan_cb);
    const auto t0 = std::chrono::steady_clock::now();
    const char* pname = "?";
#define X(n, T, S)                     \
    if (CFG_PAIR == n)                 \
    {                                  \
        pname = #T " <- " #S;          \
    }
    PAIRS(X)
#undef X
#define X(n, T, S) \
    if constexpr (CFG_PAIR == n) pair_all<T, S>(#T " <- " #S);
    PAIRS(X)
#undef X
    const double wall = std::chrono::duration<double>(std::chrono::steady_clock::now() - t0).count();
    auto jesc = [](const std::string& s)
    {
        std::string o;
        for (char c : s)
        {
            if (c == '"' || c == '\\') o += '\\';
            o += static_cast<unsigned char>(c) < 0x20 ? ' ' : c;
        }
        return o;
    };
    std::ostringstream js;
    js << "{\"pair\": \"" << jesc(pname) << "\", \"cells\": " << G.cells << ", \"objects\": " << G.objects << ", \"wall_s\": " << wall << ",\n \"samples\": [";
    for (size_t i = 0; i < G.samples.size(); ++i) js << (i ? ", " : "") << "\"" << jesc(G.samples[i]) << "\"";
    js << "],\n \"violations\": [";
    bool first = true;
    for (auto& kv : g_found)
    {
        js << (first ? "\n" : ",\n") << "  {\"discr\": \"" << jesc(kv.second.discr) << "\", \"msg\": \"" << jesc(kv.second.msg) << "\", \"count\": " << kv.second.count << "}";
        first = false;
    }
    js << "\n ]}\n";
    if (out.empty())
        std::fputs(js.str().c_str(), stdout);
    else
    {
        std::ofstream o(out);
        o << js.str();
    }
    return g_found.empty() ? 0 : 1;
}
