// Engine: a pool of real library objects (two vectors, three elements) next to its reference model.
// apply() executes one operation on both, inspect() runs the monitors, canon() gives the canonical form
// used to merge states. No private member of the library is named here.
#pragma once
#include "lists.hpp"
#include "ops.hpp"

#include <algorithm>
#include <map>
#include <optional>
#include <set>
#include <sstream>

// gateable operation groups (switched off by the build driver when the library does not compile them)
#ifndef HAVE_COPY
#define HAVE_COPY 1
#endif
#ifndef HAVE_MOVE
#define HAVE_MOVE 1
#endif
#ifndef HAVE_SWAP
#define HAVE_SWAP 1
#endif
#ifndef HAVE_ERASE
#define HAVE_ERASE 1
#endif
#ifndef HAVE_RESERVE
#define HAVE_RESERVE 1
#endif
#ifndef HAVE_CMP
#define HAVE_CMP 1
#endif
#ifndef HAVE_PLAIN_ALLOC_CTOR
#define HAVE_PLAIN_ALLOC_CTOR 1
#endif
#ifndef HAVE_REF_ASSIGN
#define HAVE_REF_ASSIGN 1
#endif
#ifndef HAVE_REF_SWAP
#define HAVE_REF_SWAP 1
#endif
#ifndef HAVE_ELEM
#define HAVE_ELEM 1
#endif
#ifndef HAVE_ELEM_COPY
#define HAVE_ELEM_COPY 1
#endif
#ifndef HAVE_ELEM_MOVE
#define HAVE_ELEM_MOVE 1
#endif
#ifndef HAVE_ELEM_SWAP
#define HAVE_ELEM_SWAP 1
#endif
#ifndef HAVE_ELEM_ASSIGN_REF
#define HAVE_ELEM_ASSIGN_REF 1
#endif
#ifndef HAVE_REF_ASSIGN_ELEM
#define HAVE_REF_ASSIGN_ELEM 1
#endif

#ifdef HX_FOOTPRINT
#include <pthread.h>
extern "C" {
struct HxAccess
{
    uintptr_t addr;
    uint32_t size;
    uint32_t write;
};
void hx_fp_begin();
void hx_fp_end();
const HxAccess* hx_fp_log(size_t* n);
unsigned hx_fp_atomics();
unsigned hx_fp_overflow();
void hx_fp_set_suppress(const int* p);
extern char __data_start, _end;
}
#endif

#define LIB(...)              \
    do                        \
    {                         \
        L().in_lib = true;    \
        __VA_ARGS__;          \
        L().in_lib = false;   \
    } while (0)

namespace hx
{
struct Params
{
    std::string mode = "hist";  // hist | pair | elem | c10 | c18 | proxy
    std::set<std::string> active;
    int nmax = 3, cmax = 2, bmax = 4, depth = 6;
    int cscale = 1;  // objects per count index
    int arena1 = 0;  // arena of slot 1 / of elements constructed "with another allocator"
    std::vector<int> fixed_choices{0, 1, 3};
    int wide = 0;       // 1: "wide" runs - capacities {0,1,nmax-1,nmax}, the macro operation fill, erase at selected positions
    int fault_ops = 0;  // > 0: the alphabet contains fail(1..fault_ops) in front of the strong-guarantee operations
    bool on(const char* p) const { return active.count(p) != 0; }
};

// optional-like holder that can also DEFAULT-initialise its object (`T x;`, not `T x{}`) in storage that was filled
// with junk before, so that members a defaulted constructor leaves indeterminate are visible as junk
template <class T>
struct Slot
{
    alignas(T) unsigned char buf[sizeof(T)];
    bool engaged = false;
    Slot() { std::memset(buf, 0xCD, sizeof buf); }
    Slot(const Slot&) = delete;
    Slot& operator=(const Slot&) = delete;
    ~Slot() { reset(); }
    template <class... A>
    T& emplace(A&&... a)
    {
        reset();
        std::memset(buf, 0xCD, sizeof buf);
        T* p = ::new (static_cast<void*>(buf)) T(std::forward<A>(a)...);
        engaged = true;
        return *p;
    }
    T& emplace_default_initialized()
    {
        reset();
        std::memset(buf, 0xCD, sizeof buf);
        T* p = ::new (static_cast<void*>(buf)) T;
        engaged = true;
        return *p;
    }
    void reset()
    {
        if (engaged)
        {
            engaged = false;
            reinterpret_cast<T*>(buf)->~T();
        }
    }
    explicit operator bool() const { return engaged; }
    T& operator*() { return *reinterpret_cast<T*>(buf); }
    const T& operator*() const { return *reinterpret_cast<const T*>(buf); }
    T* operator->() { return reinterpret_cast<T*>(buf); }
    const T* operator->() const { return reinterpret_cast<const T*>(buf); }
};

// what attribution needs to know about the transition that produced a violation
struct Ctx
{
    Op last{};
    bool pre_empty = false, fill_phase = false, seen_pair_op = false, seen_rs_grow = false;
    std::string op_tag, obs;
    bool free_step = false;
    bool fault_seen = false;
};

template <class LS, class TR>
struct Engine
{
    using Alloc = Ledger<std::byte, TR>;
    using Vec = typename LS::template Vec<cntgs::Options<cntgs::Allocator<Alloc>>>;
    using El = typename Vec::value_type;
    using VAlloc = typename Vec::allocator_type;
    static constexpr std::size_t N = LS::N;
    static constexpr bool COPYABLE = LS::ALL_COPYABLE;

    struct VM
    {
        bool present = false, moved = false;
        bool unspec = false;  // contents unspecified (after a failed assignment): only validity is checked
        std::size_t cap = 0, budget = 0;
        std::vector<std::size_t> fixed;
        int arena = 0;
        std::vector<Elem> el;
        std::size_t used() const
        {
            std::size_t b = 0;
            for (auto& e : el) b += LS::payload_bytes(e);
            return b;
        }
    };
    struct XM
    {
        bool present = false, moved = false;
        bool unspec = false;  // contents unspecified after a failed assignment: may only be destroyed or assigned to
        Elem e;
        int arena = 0;
    };

    Slot<Vec> v[2];
    VM m[2];
    Slot<El> x[3];
    XM xm[3];
    Params prm;

    // context for attribution
    Op last{};
    bool pre_empty = false;       // vector touched by the last op was empty before it
    bool fill_phase = false;      // c10 mode: after a "rich" reserve only emplace_back follows
    bool seen_pair_op = false;    // history contains copy/move/swap
    bool seen_rs_grow = false;    // history contains a reserve beyond capacity
    bool faulted = false;
    // the data block of slot t was allocated for exactly the present capacity and fixed sizes (construction, growing
    // reserve, copy construction, an assignment that had to allocate) - not kept from an earlier, larger life
    bool exact_block[2] = {true, true};
    int pending_fail = 0;     // fail(k) was the previous operation: armed for the next one
    bool fault_seen = false;  // some operation of this history ended with an injected allocation failure
    bool last_failed = false; // the last operation did
    bool free_step = false;       // the last op was a set-up step that does not count against the depth bound
    std::string obs;              // observation digest source of the last inspect
    std::string op_tag;           // context of the last op that becomes part of a violation's discriminator

    Ctx ctx() const { return Ctx{last, pre_empty, fill_phase, seen_pair_op, seen_rs_grow, op_tag, obs, free_step, fault_seen}; }

    // after an injected allocation failure propagated out of the last operation: the operands must still be
    // valid; operands whose contents are unspecified afterwards are only checked for readability
    void after_fault_monitors()
    {
        auto readable = [&](int t)
        {
            if (!m[t].present || m[t].moved) return;
            Vec& vv = *v[t];
            m[t].unspec = true;  // contents unspecified from here on
        };
        switch (last.k)
        {
            case O_CA:
                readable(last.a[1]);
                break;
            case O_MA:
                readable(last.a[1]);
                readable(last.a[0]);
                break;
            case O_XCA:
            case O_XMA:
                if (xm[last.a[1]].present) xm[last.a[1]].unspec = true;
                if (last.k == O_XMA && xm[last.a[0]].present) xm[last.a[0]].unspec = true;
                break;
            case O_XAR:
                if (xm[last.a[0]].present) xm[last.a[0]].unspec = true;
                break;
            default:
                break;
        }
        inspect();
        // "valid": an operand with unspecified contents is still a vector - after clear() it takes capacity() elements
        // (spans of length 0 need no payload budget) inside the memory it owns, with its own fixed sizes
        for (int t = 0; t < 2; ++t)
        {
            if (!m[t].present || !m[t].unspec || m[t].moved) continue;
            begin_op();
            {
                // whatever it holds, its begin/end describe it: an empty one has data_begin() == data_end(), and it can be copied
                const Vec& cv = *v[t];
                const auto db = reinterpret_cast<uintptr_t>(cv.data_begin()), de = reinterpret_cast<uintptr_t>(cv.data_end());
                if (cv.size() == 0 && db != de)
                    report("VAL", "values", "data-range-after-fault", "after a failed assignment size() == 0 but data_end() - data_begin() == %ld",
                           static_cast<long>(de - db));
                if (de < db || de - db > cv.memory_consumption())
                    report("VAL", "values", "data-range-after-fault", "after a failed assignment data_end() - data_begin() == %ld with memory_consumption() == %zu",
                           static_cast<long>(de - db), cv.memory_consumption());
#if HAVE_COPY
                else if constexpr (COPYABLE)
                {
                    L().in_lib = true;
                    Vec tmp(cv);
                    L().in_lib = false;
                    if (tmp.size() != cv.size()) report("VAL", "values", "copy-after-fault", "a copy of the operand of a failed assignment has another size()");
                    L().in_lib = true;
                }
                L().in_lib = false;
#endif
            }
            LIB(v[t]->clear());
            const std::size_t cap = v[t]->capacity();
            auto lf = lib_fixed_sizes(std::as_const(*v[t]), std::make_index_sequence<LS::NF>{});
            std::vector<std::size_t> fixed(lf.begin(), lf.end());
            bool absurd = cap > 8;
            for (auto f : fixed) absurd = absurd || f > 8;
            if (absurd)
            {
                report("VAL", "values", "capacity-after-fault", "after a failed assignment capacity() == %zu or a fixed size is out of any range used", cap);
                continue;
            }
            std::vector<Elem> filled;
            for (std::size_t i = 0; i < cap; ++i)
            {
                Elem e = LS::make_elem(mex() + static_cast<int>(i), std::vector<std::size_t>(LS::NV, 0), fixed);
                LS::emplace(*v[t], e);
                filled.push_back(e);
            }
            if (v[t]->size() != cap) report("VAL", "values", "fill-after-fault", "filled %zu elements after a failed assignment, size() == %zu", cap, v[t]->size());
            for (std::size_t i = 0; i < cap && i < v[t]->size(); ++i)
                if (LS::read(std::as_const(*v[t])[i]) != filled[i])
                    report("VAL", "values", "fill-after-fault", "element %zu written after a failed assignment reads back differently", i);
            LIB(v[t]->clear());
        }
        // "assignable": an operand whose contents are unspecified after the failure must accept a (now succeeding)
        // assignment and hold the assigned value afterwards, or at least a clear()
        for (int t = 0; t < 2; ++t)
        {
            if (!m[t].present || !m[t].unspec || m[t].moved) continue;
            const int s = 1 - t;
            bool assigned = false;
#if HAVE_COPY
            if constexpr (COPYABLE)
            {
                if (m[s].present && !m[s].moved && !m[s].unspec)
                {
                    begin_op();
                    LIB(*v[t] = std::as_const(*v[s]));
                    const int keep = m[t].arena;
                    m[t] = m[s];
                    m[t].arena = TR::cc ? m[s].arena : keep;
                    assigned = true;
                }
            }
#endif
            if (!assigned)
            {
                begin_op();
                LIB(v[t]->clear());
                if (v[t]->size() != 0 || !v[t]->empty())
                    report("VAL", "values", "clear-after-fault", "after a failed operation and clear() size() == %zu", v[t]->size());
            }
        }
#if HAVE_ELEM && HAVE_ELEM_COPY
        if constexpr (COPYABLE)
        {
            for (int e = 0; e < 3; ++e)
            {
                if (!xm[e].present || !xm[e].unspec || (last.k != O_XCA && last.k != O_XMA && last.k != O_XAR)) continue;
                for (int f = 0; f < 3; ++f)
                {
                    if (f == e || !xm[f].present || xm[f].moved || xm[f].unspec) continue;
                    begin_op();
                    LIB(*x[e] = std::as_const(*x[f]));
                    const int keep = xm[e].arena, id = xm[e].e.id;
                    xm[e] = xm[f];
                    xm[e].e.id = id;
                    xm[e].arena = TR::cc ? xm[f].arena : keep;
                    break;
                }
            }
        }
#endif
        inspect();
    }

    // ---------------------------------------------------------------- helpers
    long block_serial(int t)
    {
        if (!m[t].present || m[t].moved || !v[t]) return -1;
        HarnessScope hs;
        const Block* b = find_block(reinterpret_cast<uintptr_t>(v[t]->data_begin()), true);
        return b ? static_cast<long>(b->serial) : -1;
    }
    static int arena_of(int a) { return TR::ae ? 0 : a; }
    static VAlloc make_alloc(int a) { return VAlloc{arena_of(a)}; }

    int mex() const
    {
        std::set<int> used;
        for (auto& mm : m)
            if (mm.present)
                for (auto& e : mm.el) used.insert(e.id);
        for (auto& q : xm)
            if (q.present) used.insert(q.e.id);
        int i = 0;
        while (used.count(i)) ++i;
        return i;
    }

    template <class... A>
    void construct_vec(int t, std::size_t n, std::size_t bbytes, const std::vector<std::size_t>& fixed, int arena)
    {
        std::array<std::size_t, LS::NF> fs{};
        for (std::size_t i = 0; i < LS::NF; ++i) fs[i] = fixed[i];
        [[maybe_unused]] VAlloc al = make_alloc(arena);
        if constexpr (LS::NF > 0 && LS::NV > 0)
            LIB(v[t].emplace(n, bbytes, fs, al));
        else if constexpr (LS::NF > 0)
            LIB(v[t].emplace(n, fs, al));
        else if constexpr (LS::NV > 0)
            LIB(v[t].emplace(n, bbytes, al));
        else
        {
#if HAVE_PLAIN_ALLOC_CTOR
            LIB(v[t].emplace(n, al));
#else
            LIB(v[t].emplace(n));
#endif
        }
    }
    static Vec make_temp(std::size_t n, std::size_t bbytes, const std::vector<std::size_t>& fixed, int arena)
    {
        std::array<std::size_t, LS::NF> fs{};
        for (std::size_t i = 0; i < LS::NF; ++i) fs[i] = fixed[i];
        [[maybe_unused]] VAlloc al = make_alloc(arena);
        if constexpr (LS::NF > 0 && LS::NV > 0)
            return Vec(n, bbytes, fs, al);
        else if constexpr (LS::NF > 0)
            return Vec(n, fs, al);
        else if constexpr (LS::NV > 0)
            return Vec(n, bbytes, al);
        else
        {
#if HAVE_PLAIN_ALLOC_CTOR
            return Vec(n, al);
#else
            return Vec(n);
#endif
        }
    }

    // the operation text carries count INDICES; the number of objects is index x cscale (runs with cscale 4 reach
    // spans of 16..48 bytes, i.e. the block sizes a copy/move/swap loop may special-case)
    std::size_t unit() const { return LS::UNIT * static_cast<std::size_t>(prm.cscale); }
    std::vector<std::size_t> counts_of(const Op& o) const
    {
        std::vector<std::size_t> c(LS::NV);
        for (std::size_t i = 0; i < LS::NV; ++i) c[i] = static_cast<std::size_t>(o.a[1 + i]) * static_cast<std::size_t>(prm.cscale);
        return c;
    }
    static bool same_shape(const Elem& a, const Elem& b)
    {
        for (std::size_t i = 0; i < N; ++i)
            if (a.f[i].size() != b.f[i].size()) return false;
        return true;
    }

    // compare a whole real vector against a model (used for temporaries)
    template <class VV>
    bool equals_model(const VV& vv, const VM& mm, const char* what, const char* props)
    {
        if (vv.size() != mm.el.size())
        {
            report(props, "values", std::string(what) + ":size", "%s: size() == %zu, model %zu", what, vv.size(),
                   mm.el.size());
            return false;
        }
        for (std::size_t i = 0; i < mm.el.size(); ++i)
        {
            Elem got = LS::read(vv[i]);
            if (got != mm.el[i])
            {
                report(props, "values", std::string(what) + ":value", "%s: element %zu is %s, model %s", what, i,
                       to_string(got).c_str(), to_string(mm.el[i]).c_str());
                return false;
            }
        }
        return true;
    }

    // erase on a vector with VaryingSize parameter and non-trivial values relocates element by element; tag
    // whether some moved element is longer than the gap it moves by (relocation onto its own storage)
    std::string compute_tag(const Op& o)
    {
        op_tag.clear();
        if (o.k == O_ER1) tag_relocation(o.a[0], static_cast<std::size_t>(o.a[1]), static_cast<std::size_t>(o.a[1]) + 1);
        if (o.k == O_ER2) tag_relocation(o.a[0], static_cast<std::size_t>(o.a[1]), static_cast<std::size_t>(o.a[2]));
        return op_tag;
    }
    void tag_relocation(int t, std::size_t to, std::size_t from)
    {
        if constexpr (LS::NV > 0 && !LS::ALL_TRIVIAL)
        {
            Vec& vv = *v[t];
            const std::size_t n = std::min(vv.size(), m[t].el.size());
            if (from >= n || from == to) return;
            const auto gap = static_cast<std::size_t>(vv[from].data_begin() - vv[to].data_begin());
            bool overlap = false;
            for (std::size_t k = from; k < n; ++k) overlap = overlap || vv[k].size_in_bytes() > gap;
            op_tag = overlap ? "reloc-overlap" : "reloc-disjoint";
        }
        else
        {
            (void)t;
            (void)to;
            (void)from;
        }
    }

    // ---------------------------------------------------------------- apply
    // returns false when an injected allocation failure propagated out of the operation
    bool apply(const Op& o)
    {
        begin_op();
        R().reset_counters();
        last = o;
        pre_empty = false;
        free_step = (prm.mode == "elem" || prm.mode == "proxy") && (o.k == O_EB || o.k == O_NEW || o.k == O_DEF);
        last_failed = false;
        if (o.k == O_FAIL)
        {
            pending_fail = o.a[0];
            free_step = true;
            op_tag.clear();
            return true;
        }
        compute_tag(o);
        const int arm = pending_fail;
        pending_fail = 0;
        if (arm)
        {
            L().fail_at = arm;
            L().faults_thrown = 0;
        }
        long pre_serial[2] = {-1, -1};
        bool pre_exact[2] = {exact_block[0], exact_block[1]};
        std::size_t pre_cap[2] = {m[0].cap, m[1].cap};
        std::vector<std::size_t> pre_fixed[2] = {m[0].fixed, m[1].fixed};
        for (int t = 0; t < 2; ++t) pre_serial[t] = block_serial(t);
        const unsigned op_mark = L().op_serial;
        try
        {
            dispatch(o);
            for (int t = 0; t < 2; ++t)
            {
                const long now = block_serial(t);
                if (now < 0)
                    exact_block[t] = true;
                else if (now == pre_serial[t])
                    exact_block[t] = pre_exact[t] && m[t].cap == pre_cap[t] && m[t].fixed == pre_fixed[t];
                else if (now == pre_serial[1 - t])
                    exact_block[t] = pre_exact[1 - t] && m[t].cap == pre_cap[1 - t] && m[t].fixed == pre_fixed[1 - t];
                else
                    exact_block[t] = true;  // a block born in this operation
            }
            (void)op_mark;
        }
        catch (const std::bad_alloc&)
        {
            L().in_lib = false;
            faulted = true;
            if (arm)
            {
                L().fail_at = 0;
                fault_seen = true;
                last_failed = true;
            }
            return false;
        }
        if (arm)
        {
            L().fail_at = 0;
            if (L().faults_thrown > 0)
            {
                fault_seen = true;
                report("C17", "faults", "exception-swallowed", "an allocation failure did not propagate to the caller");
            }
        }
        return true;
    }

    void dispatch(const Op& o)
    {
        const int t = o.a[0];
        switch (o.k)
        {
            case O_NEW:
            {
                std::vector<std::size_t> fixed(LS::NF);
                for (std::size_t i = 0; i < LS::NF; ++i) fixed[i] = static_cast<std::size_t>(o.a[3 + i]);
                const std::size_t bbytes = static_cast<std::size_t>(o.a[2]) * unit();
                construct_vec(t, static_cast<std::size_t>(o.a[1]), bbytes, fixed, o.a[5]);
                m[t] = VM{};
                m[t].present = true;
                m[t].cap = static_cast<std::size_t>(o.a[1]);
                m[t].budget = LS::NV ? bbytes : 0;
                m[t].fixed = fixed;
                m[t].arena = arena_of(o.a[5]);
                pre_empty = true;
                break;
            }
            case O_DEF:
            {
                LIB(v[t].emplace_default_initialized());  // `Vec v;`
                m[t] = VM{};
                m[t].present = true;
                m[t].fixed.assign(LS::NF, 0);
                pre_empty = true;
                break;
            }
            case O_EB:
            {
                pre_empty = m[t].el.empty();
                Elem e = LS::make_elem(mex(), counts_of(o), m[t].fixed);
                LS::emplace(*v[t], e);
                m[t].el.push_back(e);
                break;
            }
            case O_EBS:
            {
                if constexpr (COPYABLE)
                {
                    const std::size_t i = static_cast<std::size_t>(o.a[1]);
                    Elem e = m[t].el[i];
                    e.id = mex();
                    LS::emplace_from_ref(*v[t], std::as_const(*v[t])[i]);
                    m[t].el.push_back(e);
                }
                break;
            }
            case O_FILL:
            {
                pre_empty = m[t].el.empty();
                for (std::size_t j = m[t].el.size(); j < m[t].cap; ++j)
                {
                    std::vector<std::size_t> c(LS::NV);
                    for (std::size_t i = 0; i < LS::NV; ++i)
                        c[i] = ((j + static_cast<std::size_t>(o.a[1]) + i) % (static_cast<std::size_t>(prm.cmax) + 1)) * static_cast<std::size_t>(prm.cscale);
                    if (LS::payload_bytes(c) > m[t].budget - m[t].used()) break;
                    Elem e = LS::make_elem(mex(), c, m[t].fixed);
                    LS::emplace(*v[t], e);
                    m[t].el.push_back(e);
                }
                break;
            }
            case O_PB:
            {
                LIB(v[t]->pop_back());
                m[t].el.pop_back();
                break;
            }
#if HAVE_ERASE
            case O_ER1:
            {
                const std::size_t i = static_cast<std::size_t>(o.a[1]);
                L().in_lib = true;
                auto it = v[t]->erase(v[t]->begin() + static_cast<std::ptrdiff_t>(i));
                L().in_lib = false;
                m[t].el.erase(m[t].el.begin() + static_cast<std::ptrdiff_t>(i));
                if (!(it == v[t]->begin() + static_cast<std::ptrdiff_t>(i)))
                    report("VAL", "values", "erase-return", "erase(%zu) does not return the iterator to the follower", i);
                break;
            }
            case O_ER2:
            {
                const std::size_t i = static_cast<std::size_t>(o.a[1]), j = static_cast<std::size_t>(o.a[2]);
                pre_empty = m[t].el.empty();
                L().in_lib = true;
                auto it = v[t]->erase(v[t]->begin() + static_cast<std::ptrdiff_t>(i),
                                      v[t]->begin() + static_cast<std::ptrdiff_t>(j));
                L().in_lib = false;
                m[t].el.erase(m[t].el.begin() + static_cast<std::ptrdiff_t>(i),
                              m[t].el.begin() + static_cast<std::ptrdiff_t>(j));
                if (!(it == v[t]->begin() + static_cast<std::ptrdiff_t>(i)))
                    report("VAL", "values", "erase-return", "erase(%zu,%zu) does not return the iterator to the follower",
                           i, j);
                break;
            }
#endif
            case O_CL:
            {
                pre_empty = m[t].el.empty();
                LIB(v[t]->clear());
                if (!m[t].moved) m[t].el.clear();
                break;
            }
#if HAVE_RESERVE
            case O_RS:
            {
                pre_empty = m[t].el.empty();
                const std::size_t n = static_cast<std::size_t>(o.a[1]);
                const std::size_t bbytes = static_cast<std::size_t>(o.a[2]) * unit();
                if constexpr (LS::NV > 0)
                    LIB(v[t]->reserve(n, bbytes));
                else
                    LIB(v[t]->reserve(n));
                if (n > m[t].cap)
                {
                    m[t].cap = n;
                    m[t].budget = LS::NV ? bbytes : 0;
                    seen_rs_grow = true;
                }
                if (o.a[3]) fill_phase = true;
                break;
            }
#endif
#if HAVE_COPY
            case O_CC:
            {
                if constexpr (COPYABLE)
                {
                    const int s = o.a[0], d = o.a[1];
                    pre_empty = m[s].el.empty();
                    LIB(v[d].emplace(std::as_const(*v[s])));
                    m[d] = m[s];
                    m[d].arena = (TR::soccc && !TR::ae) ? m[s].arena + 100 : m[s].arena;
                    seen_pair_op = true;
                }
                break;
            }
            case O_CA:
            {
                if constexpr (COPYABLE)
                {
                    const int s = o.a[0], d = o.a[1];
                    pre_empty = m[s].el.empty() || m[d].el.empty();
                    LIB(*v[d] = std::as_const(*v[s]));
                    if (s != d)
                    {
                        const int keep = m[d].arena;
                        m[d] = m[s];
                        m[d].arena = TR::cc ? m[s].arena : keep;
                    }
                    seen_pair_op = true;
                }
                break;
            }
#endif
#if HAVE_MOVE
            case O_MC:
            {
                const int s = o.a[0], d = o.a[1];
                pre_empty = m[s].el.empty();
                LIB(v[d].emplace(std::move(*v[s])));
                m[d] = m[s];
                m[s].moved = true;
                seen_pair_op = true;
                break;
            }
            case O_MA:
            {
                const int s = o.a[0], d = o.a[1];
                pre_empty = m[s].el.empty() || m[d].el.empty();
                LIB(*v[d] = std::move(*v[s]));
                if (s != d)
                {
                    const int keep = m[d].arena;
                    m[d] = m[s];
                    m[d].arena = TR::mc ? m[s].arena : keep;
                    m[s].moved = true;
                }
                seen_pair_op = true;
                break;
            }
#endif
#if HAVE_SWAP
            case O_SW:
            {
                const int a = o.a[0], b = o.a[1];
                pre_empty = m[a].el.empty() || m[b].el.empty();
                using std::swap;
                LIB(swap(*v[a], *v[b]));
                if (a != b)
                {
                    std::swap(m[a], m[b]);
                    if (!TR::sw) std::swap(m[a].arena, m[b].arena);
                }
                seen_pair_op = true;
                break;
            }
#endif
            case O_DES:
            {
                pre_empty = m[t].el.empty();
                LIB(v[t].reset());
                m[t] = VM{};
                break;
            }
#if HAVE_COPY
            case O_TCPY:
            {
                if constexpr (COPYABLE)
                {
                    pre_empty = m[t].el.empty();
                    L().in_lib = true;
                    Vec tmp(std::as_const(*v[t]));
                    L().in_lib = false;
                    equals_model(tmp, m[t], "copy", "VAL");
                    if (tmp.capacity() < m[t].el.size())
                        report("VAL", "values", "copy:capacity", "copy has capacity %zu < size", tmp.capacity());
                    if (!m[t].el.empty())
                    {
                        Elem scratch = m[t].el[0];
                        LS::mutate(tmp[0], scratch, 1);  // must not be visible through v[t] (checked by inspect)
                    }
                    seen_pair_op = true;
                }
                break;
            }
            case O_TCPA:
            {
                if constexpr (COPYABLE)
                {
                    pre_empty = m[t].el.empty();
                    const std::size_t k = static_cast<std::size_t>(o.a[1]);
                    L().in_lib = true;
                    Vec tmp = make_temp(k, m[t].budget, m[t].fixed, m[t].arena);
                    L().in_lib = false;
                    if (k > 0)
                    {
                        std::vector<std::size_t> zero(LS::NV, 0);
                        LS::emplace(tmp, LS::make_elem(mex(), zero, m[t].fixed));
                    }
                    LIB(tmp = std::as_const(*v[t]));
                    equals_model(tmp, m[t], "copy-assigned", "VAL");
                    seen_pair_op = true;
                }
                break;
            }
#endif
#if HAVE_SWAP
            case O_TSWP:
            {
                pre_empty = m[t].el.empty();
                std::vector<std::size_t> other_fixed = m[t].fixed;
                if (o.a[1])
                    for (auto& f : other_fixed) f = f == 2 ? 1 : 2;  // a temporary with different fixed sizes
                L().in_lib = true;
                Vec tmp = make_temp(0, 0, other_fixed, m[t].arena);
                L().in_lib = false;
                using std::swap;
                LIB(swap(*v[t], tmp));
                equals_model(tmp, m[t], "swapped-out", "VAL");
                if (v[t]->size() != 0 || !v[t]->empty())
                    report("VAL", "values", "swapped-in:size", "after swap with an empty vector size() == %zu",
                           v[t]->size());
                {
                    // swap exchanges the complete contents, the fixed sizes included
                    auto now = lib_fixed_sizes(std::as_const(*v[t]), std::make_index_sequence<LS::NF>{});
                    auto out = lib_fixed_sizes(std::as_const(tmp), std::make_index_sequence<LS::NF>{});
                    for (std::size_t i = 0; i < LS::NF; ++i)
                        if (now[i] != other_fixed[i] || out[i] != m[t].fixed[i])
                            report("VAL", "values", "swapped:fixed-size",
                                   "after swap get_fixed_size<%zu>() is %zu / %zu, expected %zu / %zu", i, now[i], out[i],
                                   other_fixed[i], m[t].fixed[i]);
                }
                LIB(swap(tmp, *v[t]));
                seen_pair_op = true;
                break;
            }
#endif
#if HAVE_CMP
            case O_TCMP:
            {
                pre_empty = m[t].el.empty();
                const Vec& cv = *v[t];
                // empty vectors with OTHER fixed sizes, and a default-constructed one: no elements either
                std::vector<std::size_t> other_fixed = m[t].fixed;
                for (auto& f : other_fixed) f = f + 1;
                L().in_lib = true;
                Vec empty_one = make_temp(0, 0, m[t].fixed, m[t].arena);
                Vec empty_two = make_temp(1, m[t].budget, m[t].fixed, m[t].arena);
                Vec empty_three = make_temp(2, m[t].budget, other_fixed, m[t].arena);
                Vec empty_four;
                L().in_lib = false;
                const bool is_empty = m[t].el.empty();
                bool r;
                LIB(r = (cv == cv));
                if (!r) report("VAL", "values", "cmp:reflexive", "v == v is false");
                LIB(r = (cv != cv));
                if (r) report("VAL", "values", "cmp:reflexive", "v != v is true");
                LIB(r = (cv < cv));
                if (r) report("VAL", "values", "cmp:irreflexive", "v < v is true");
                for (const Vec* e : {&empty_one, &empty_two, &empty_three, &empty_four})
                {
                    LIB(r = (cv == *e));
                    if (r != is_empty) report("VAL", "values", "cmp:eq-empty", "v == empty is %d, model %d", r, is_empty);
                    LIB(r = (*e == cv));
                    if (r != is_empty) report("VAL", "values", "cmp:eq-empty", "empty == v is %d, model %d", r, is_empty);
                    LIB(r = (cv != *e));
                    if (r == is_empty) report("VAL", "values", "cmp:ne-empty", "v != empty is %d", r);
                    LIB(r = (*e < cv));
                    if (r == is_empty) report("VAL", "values", "cmp:lt-empty", "empty < v is %d, model %d", r, !is_empty);
                    LIB(r = (cv < *e));
                    if (r) report("VAL", "values", "cmp:lt-empty", "v < empty is true");
                }
                break;
            }
#endif
            // ------------------------------------------------------ references
#if HAVE_REF_ASSIGN
            case O_RAR:
            {
                const std::size_t i = static_cast<std::size_t>(o.a[1]), j = static_cast<std::size_t>(o.a[2]);
                const int form = o.a[3];
                Vec& vv = *v[t];
                const Vec& cv = vv;
                if (form == 0)
                {
                    if constexpr (COPYABLE)
                    {
                        auto ri = vv[i];
                        auto rj = vv[j];
                        LIB(ri = rj);
                        m[t].el[i].f = m[t].el[j].f;
                    }
                }
                else if (form == 1)
                {
                    if constexpr (COPYABLE)
                    {
                        auto ri = vv[i];
                        LIB(ri = cv[j]);
                        m[t].el[i].f = m[t].el[j].f;
                    }
                }
                else
                {
                    auto ri = vv[i];
                    LIB(ri = vv[j]);
                    m[t].el[i].f = m[t].el[j].f;
                    LS::mark_moved(m[t].el[j]);
                }
                break;
            }
#endif
#if HAVE_REF_SWAP
            case O_RSW:
            {
                const std::size_t i = static_cast<std::size_t>(o.a[1]), j = static_cast<std::size_t>(o.a[2]);
                Vec& vv = *v[t];
                if (o.a[3] == 0)
                {
                    using std::swap;
                    LIB(swap(vv[i], vv[j]));
                }
                else
                {
                    LIB(std::iter_swap(vv.begin() + static_cast<std::ptrdiff_t>(i),
                                       vv.begin() + static_cast<std::ptrdiff_t>(j)));
                }
                std::swap(m[t].el[i], m[t].el[j]);
                break;
            }
            case O_ROT:
            {
                Vec& vv = *v[t];
                LIB(std::rotate(vv.begin() + o.a[1], vv.begin() + o.a[2], vv.begin() + o.a[3]));
                std::rotate(m[t].el.begin() + o.a[1], m[t].el.begin() + o.a[2], m[t].el.begin() + o.a[3]);
                break;
            }
            case O_REV:
            {
                Vec& vv = *v[t];
                LIB(std::reverse(vv.begin() + o.a[1], vv.begin() + o.a[2]));
                std::reverse(m[t].el.begin() + o.a[1], m[t].el.begin() + o.a[2]);
                break;
            }
            case O_SWR:
            {
                Vec& vv = *v[t];
                LIB(std::swap_ranges(vv.begin() + o.a[1], vv.begin() + o.a[2], vv.begin() + o.a[3]));
                std::swap_ranges(m[t].el.begin() + o.a[1], m[t].el.begin() + o.a[2], m[t].el.begin() + o.a[3]);
                break;
            }
#endif
            case O_WP:
            {
                const std::size_t i = static_cast<std::size_t>(o.a[1]);
                Vec& vv = *v[t];
                Elem& me = m[t].el[i];
                switch (o.a[2])
                {
                    case 0:
                        LS::mutate(vv[i], me, 3);
                        break;
                    case 1:
                        if (i == 0)
                            LS::mutate(vv.front(), me, 5);
                        else
                            LS::mutate(vv.back(), me, 5);
                        break;
                    case 2:
                        LS::mutate(*(vv.begin() + static_cast<std::ptrdiff_t>(i)), me, 7);
                        break;
                    case 3:
                        LS::mutate(vv.begin()[static_cast<std::ptrdiff_t>(i)], me, 11);
                        break;
                    default:
                    {
                        auto it = vv.begin() + static_cast<std::ptrdiff_t>(i);
                        LS::mutate(*it.operator->().operator->(), me, 13);
                        break;
                    }
                }
                break;
            }
            // ------------------------------------------------------ elements
#if HAVE_ELEM
            case O_XR:
            {
                const int e = o.a[0], tt = o.a[1];
                const std::size_t i = static_cast<std::size_t>(o.a[2]);
                const int form = o.a[3], ar = o.a[4];
                Vec& vv = *v[tt];
                const Vec& cv = vv;
                typename El::allocator_type al = make_alloc(ar < 0 ? 0 : ar);
                bool did = true;
                if (form == 0)
                {
                    if constexpr (COPYABLE)
                    {
                        auto cr = cv[i];
                        if (ar < 0)
                            LIB(x[e].emplace(cr));
                        else
                            LIB(x[e].emplace(cr, al));
                    }
                    else
                        did = false;
                }
                else if (form == 1)
                {
                    if constexpr (COPYABLE)
                    {
                        auto r = vv[i];
                        if (ar < 0)
                            LIB(x[e].emplace(r));
                        else
                            LIB(x[e].emplace(r, al));
                    }
                    else
                        did = false;
                }
                else if (form == 2)
                {
                    if (ar < 0)
                        LIB(x[e].emplace(vv[i]));
                    else
                        LIB(x[e].emplace(vv[i], al));
                }
                else
                {
                    if constexpr (COPYABLE)
                    {
                        if (ar < 0)
                            LIB(x[e].emplace(cv[i]));
                        else
                            LIB(x[e].emplace(cv[i], al));
                    }
                    else
                        did = false;
                }
                if (did)
                {
                    xm[e] = XM{};
                    xm[e].present = true;
                    xm[e].e = m[tt].el[i];
                    xm[e].e.id = mex();
                    xm[e].arena = arena_of(ar < 0 ? 0 : ar);
                    if (form == 2) LS::mark_moved(m[tt].el[i]);
                }
                break;
            }
#if HAVE_ELEM_COPY
            case O_XCC:
            {
                if constexpr (COPYABLE)
                {
                    const int f = o.a[0], e = o.a[1], ar = o.a[2];
                    typename El::allocator_type al = make_alloc(ar < 0 ? 0 : ar);
                    if (ar < 0)
                        LIB(x[e].emplace(std::as_const(*x[f])));
                    else
                        LIB(x[e].emplace(std::as_const(*x[f]), al));
                    xm[e] = xm[f];
                    xm[e].e.id = mex();
                    xm[e].arena =
                        ar < 0 ? ((TR::soccc && !TR::ae) ? xm[f].arena + 100 : xm[f].arena) : arena_of(ar);
                }
                break;
            }
            case O_XCA:
            {
                if constexpr (COPYABLE)
                {
                    const int f = o.a[0], e = o.a[1];
                    LIB(*x[e] = std::as_const(*x[f]));
                    if (e != f)
                    {
                        const int keep = xm[e].arena, id = xm[e].e.id;
                        xm[e] = xm[f];
                        xm[e].e.id = id;
                        xm[e].arena = TR::cc ? xm[f].arena : keep;
                    }
                }
                break;
            }
#endif
#if HAVE_ELEM_MOVE
            case O_XMC:
            {
                const int f = o.a[0], e = o.a[1], ar = o.a[2];
                typename El::allocator_type al = make_alloc(ar < 0 ? 0 : ar);
                if (ar < 0)
                    LIB(x[e].emplace(std::move(*x[f])));
                else
                    LIB(x[e].emplace(std::move(*x[f]), al));
                xm[e] = xm[f];
                xm[e].e.id = mex();
                xm[e].arena = ar < 0 ? xm[f].arena : arena_of(ar);
                xm[f].moved = true;
                break;
            }
            case O_XMA:
            {
                const int f = o.a[0], e = o.a[1];
                LIB(*x[e] = std::move(*x[f]));
                if (e != f)
                {
                    const int keep = xm[e].arena, id = xm[e].e.id;
                    xm[e] = xm[f];
                    xm[e].e.id = id;
                    xm[e].arena = TR::mc ? xm[f].arena : keep;
                    xm[f].moved = true;
                }
                break;
            }
#endif
#if HAVE_ELEM_SWAP
            case O_XSW:
            {
                const int e = o.a[0], f = o.a[1];
                using std::swap;
                LIB(swap(*x[e], *x[f]));
                if (e != f)
                {
                    std::swap(xm[e], xm[f]);
                    if (!TR::sw) std::swap(xm[e].arena, xm[f].arena);
                }
                break;
            }
#endif
#if HAVE_ELEM_ASSIGN_REF
            case O_XAR:
            {
                const int e = o.a[0], tt = o.a[1];
                const std::size_t i = static_cast<std::size_t>(o.a[2]);
                const int form = o.a[3];
                Vec& vv = *v[tt];
                const Vec& cv = vv;
                bool did = true;
                if (form == 0)
                {
                    if constexpr (COPYABLE)
                    {
                        auto cr = cv[i];
                        LIB(*x[e] = cr);
                    }
                    else
                        did = false;
                }
                else if (form == 1)
                {
                    if constexpr (COPYABLE)
                    {
                        auto r = vv[i];
                        LIB(*x[e] = r);
                    }
                    else
                        did = false;
                }
                else if (form == 2)
                {
                    LIB(*x[e] = vv[i]);
                }
                else
                {
                    if constexpr (COPYABLE)
                        LIB(*x[e] = cv[i]);
                    else
                        did = false;
                }
                if (did)
                {
                    xm[e].e.f = m[tt].el[i].f;
                    if (form == 2) LS::mark_moved(m[tt].el[i]);
                }
                break;
            }
#endif
#if HAVE_REF_ASSIGN_ELEM
            case O_RAX:
            {
                const int tt = o.a[0], e = o.a[2];
                const std::size_t i = static_cast<std::size_t>(o.a[1]);
                Vec& vv = *v[tt];
                if (o.a[3] == 0)
                {
                    if constexpr (COPYABLE)
                    {
                        auto r = vv[i];
                        LIB(r = std::as_const(*x[e]));
                        m[tt].el[i].f = xm[e].e.f;
                    }
                }
                else
                {
                    auto r = vv[i];
                    LIB(r = std::move(*x[e]));
                    m[tt].el[i].f = xm[e].e.f;
                    LS::mark_moved(xm[e].e);
                }
                break;
            }
#endif
            case O_XMUT:
            {
                LS::mutate(*x[o.a[0]], xm[o.a[0]].e, 17);
                break;
            }
            case O_XDES:
            {
                LIB(x[o.a[0]].reset());
                xm[o.a[0]] = XM{};
                break;
            }
#endif  // HAVE_ELEM
            case O_VMUT:
            {
                LS::mutate((*v[t])[static_cast<std::size_t>(o.a[1])], m[t].el[static_cast<std::size_t>(o.a[1])], 19);
                break;
            }
            default:
                report("INTERNAL", "engine", "unknown-op", "operation %s is not available in this build", op_str(o).c_str());
                break;
        }
    }

    // ---------------------------------------------------------------- snapshot for transition monitors
    struct Snap
    {
        bool present[2]{false, false};
        bool moved[2]{false, false};
        uintptr_t data_begin[2]{0, 0};
        std::size_t cap[2]{0, 0};
        std::size_t size[2]{0, 0};
        long block[2]{-1, -1};
        std::size_t consumed[2]{0, 0};  // bytes of the data block as the allocator recorded them
        std::size_t mc[2]{0, 0};        // memory_consumption() as the vector reports it
        std::map<std::tuple<int, int, int, int>, uintptr_t> obj;  // (slot, elem id, field, pos) -> address
        std::string canon;
    };

    Snap snapshot(bool with_canon)
    {
        Snap s;
        for (int t = 0; t < 2; ++t)
        {
            s.present[t] = m[t].present;
            s.moved[t] = m[t].moved;
            if (!m[t].present || m[t].moved) continue;
            Vec& vv = *v[t];
            s.data_begin[t] = reinterpret_cast<uintptr_t>(vv.data_begin());
            s.cap[t] = vv.capacity();
            s.size[t] = vv.size();
            s.mc[t] = vv.memory_consumption();
            if (const Block* b = find_block(s.data_begin[t], true))
            {
                s.block[t] = static_cast<long>(b->serial);
                s.consumed[t] = b->bytes;
            }
            const std::size_t n = std::min(m[t].el.size(), vv.size());
            for (std::size_t i = 0; i < n; ++i)
            {
                auto ex = LS::extents(vv[i]);
                for (std::size_t k = 0; k < N; ++k)
                    for (std::size_t p = 0; p < std::min<std::size_t>(ex[k].count, 8); ++p)
                        s.obj[{t, m[t].el[i].id, static_cast<int>(k), static_cast<int>(p)}] = ex[k].addr + p * LS::sizes[k];
            }
        }
        if (with_canon)
        {
            // without the armed failure: compared with the canonical form after the (failed) operation
            const int pf = pending_fail;
            pending_fail = 0;
            s.canon = canon(false);
            pending_fail = pf;
        }
        return s;
    }

    // C11: iterator OBJECTS that were obtained before the operation and are assigned a fresh position afterwards must
    // denote the same elements as operator[] (an assignment has to replace everything the iterator holds, whatever the
    // old iterator pointed to - it may be invalidated, it is only assigned to, never dereferenced)
    std::optional<typename Vec::iterator> kept_it[2];
    std::optional<typename Vec::const_iterator> kept_cit[2];
    void keep_iterators()
    {
        for (int t = 0; t < 2; ++t)
        {
            kept_it[t].reset();
            kept_cit[t].reset();
            if (!m[t].present || m[t].moved) continue;
            kept_it[t] = v[t]->begin();
            kept_cit[t] = std::as_const(*v[t]).begin();
        }
    }
    void reassigned_iterator_monitors()
    {
        for (int t = 0; t < 2; ++t)
        {
            if (!kept_it[t] || !m[t].present || m[t].moved) continue;
            Vec& vv = *v[t];
            const Vec& cv = vv;
            const std::size_t n = std::min(m[t].el.size(), vv.size());
            for (std::size_t j = 0; j <= n; ++j)
            {
                const auto d = static_cast<std::ptrdiff_t>(j);
                auto it = *kept_it[t];
                auto cit = *kept_cit[t], cit2 = *kept_cit[t];
                it = vv.begin() + d;    // same-type assignment
                cit = vv.begin() + d;   // converting assignment iterator -> const_iterator
                cit2 = cv.begin() + d;  // same-type assignment (const)
                auto bad = [&](const char* what)
                {
                    report("C04,C11", "iterator", std::string("reassigned-iterator:") + what,
                           "an iterator obtained before %s and assigned begin()+%zu afterwards: %s", OP_NAMES[last.k], j, what);
                };
                if (!(it == vv.begin() + d) || !(cit == cv.begin() + d) || !(cit2 == cv.begin() + d)) bad("compares unequal to begin()+i");
                if (it.index() != j || cit.index() != j || cit2.index() != j) bad("index() is wrong");
                if (j < n)
                {
                    const auto want = LS::extents(cv[j]);
                    const auto e1 = LS::extents(*it), e2 = LS::extents(*cit), e3 = LS::extents(*cit2);
                    for (std::size_t k = 0; k < N; ++k)
                    {
                        if (e1[k].addr != want[k].addr || e1[k].count != want[k].count) bad("*it denotes other objects than operator[]");
                        if (e2[k].addr != want[k].addr || e2[k].count != want[k].count)
                            bad("*const_iterator (assigned from an iterator) denotes other objects than operator[]");
                        if (e3[k].addr != want[k].addr || e3[k].count != want[k].count) bad("*const_iterator denotes other objects than operator[]");
                    }
                }
            }
        }
    }

    // C16 (+ the "does nothing at all" clause of C10): evaluated right after apply()
    void transition_monitors(const Snap& pre, const Op& o)
    {
        if (prm.on("C11") || prm.on("C04")) reassigned_iterator_monitors();
        if (last_failed && (o.k == O_RS || o.k == O_CC) && !pre.canon.empty())
        {
            // C17: reserve and copy construction leave the source completely unchanged when an allocation fails
            // (model, ledger blocks and their bytes, registry - the same canonical form as before)
            if (canon(false) != pre.canon)
                report("C17", "faults", std::string("state-changed-by-failed-") + OP_NAMES[o.k],
                       "%s threw std::bad_alloc and left the vector / the allocator's blocks in a different state", OP_NAMES[o.k]);
        }
        const Snap post = snapshot(false);
        const unsigned allocs = L().allocs_this_op;
        auto same_objects = [&](int ts, int tt, std::size_t upto_index, const char* what)
        {
            // every object of slot ts (pre) whose element still exists in slot tt (post) keeps its address
            for (auto& kv : pre.obj)
            {
                if (std::get<0>(kv.first) != ts) continue;
                auto key = kv.first;
                std::get<0>(key) = tt;
                auto it = post.obj.find(key);
                if (it == post.obj.end()) continue;
                // position filter for erase: only elements in front of the erased position
                if (upto_index != SIZE_MAX)
                {
                    std::size_t idx = 0;
                    bool found = false;
                    for (; idx < m[tt].el.size(); ++idx)
                        if (m[tt].el[idx].id == std::get<1>(key))
                        {
                            found = true;
                            break;
                        }
                    if (!found || idx >= upto_index) continue;
                }
                if (it->second != kv.second)
                {
                    report("C16", "stability", std::string(what) + ":object-moved",
                           "%s: a stored object changed its address", what);
                    return;
                }
            }
        };
        auto no_alloc = [&](const char* what)
        {
            if (allocs != 0)
                report("C16", "stability", std::string(what) + ":allocates", "%s requested %u allocation(s)", what, allocs);
        };
        auto same_block = [&](int t, const char* what)
        {
            if (!post.present[t] || post.moved[t] || !pre.present[t] || pre.moved[t]) return;
            if (pre.data_begin[t] != post.data_begin[t])
                report("C16", "stability", std::string(what) + ":data_begin", "%s changed data_begin()", what);
            if (pre.cap[t] != post.cap[t])
                report("C16", "stability", std::string(what) + ":capacity", "%s changed capacity() from %zu to %zu", what,
                       pre.cap[t], post.cap[t]);
            if (pre.block[t] != post.block[t])
                report("C16", "stability", std::string(what) + ":block", "%s changed the block", what);
        };
        const int t = o.a[0];
        switch (o.k)
        {
            case O_EB:
                same_objects(t, t, SIZE_MAX, "emplace_back");
                no_alloc("emplace_back");
                same_block(t, "emplace_back");
                break;
            case O_PB:
                same_objects(t, t, SIZE_MAX, "pop_back");
                no_alloc("pop_back");
                same_block(t, "pop_back");
                break;
            case O_CL:
                if (pre.moved[t]) break;
                no_alloc("clear");
                same_block(t, "clear");
                break;
            case O_ER1:
            case O_ER2:
                same_objects(t, t, static_cast<std::size_t>(o.a[1]), "erase");
                no_alloc("erase");
                same_block(t, "erase");
                break;
            case O_RS:
                if (static_cast<std::size_t>(o.a[1]) <= pre.cap[t])
                {
                    same_objects(t, t, SIZE_MAX, "reserve-within-capacity");
                    no_alloc("reserve-within-capacity");
                    same_block(t, "reserve-within-capacity");
                }
                break;
            case O_SW:
                if (o.a[0] != o.a[1] && !pre.moved[0] && !pre.moved[1])
                {
                    no_alloc("swap");
                    same_objects(o.a[0], o.a[1], SIZE_MAX, "swap");
                    same_objects(o.a[1], o.a[0], SIZE_MAX, "swap");
                    // ownership is exchanged completely: block, capacity and the size the block is accounted with
                    for (int a = 0; a < 2; ++a)
                    {
                        const int b = 1 - a;
                        if (post.block[a] != pre.block[b])
                            report("C16", "stability", "swap:block-not-exchanged", "after swap vector %d does not own the block vector %d owned", a, b);
                        if (post.cap[a] != pre.cap[b])
                            report("C16", "stability", "swap:capacity-not-exchanged", "after swap capacity() == %zu, the other vector had %zu", post.cap[a], pre.cap[b]);
                        if (post.mc[a] != pre.mc[b])
                            report("C16", "stability", "swap:memory_consumption-not-exchanged",
                                   "after swap memory_consumption() == %zu, the other vector had %zu", post.mc[a], pre.mc[b]);
                    }
                }
                break;
            case O_MC:
                no_alloc("move-construction");
                same_objects(o.a[0], o.a[1], SIZE_MAX, "move-construction");
                break;
            case O_CC:
            case O_CA:
                // C06: a copy goes through the value type's own copy constructor unless the type is trivially copyable
                if (o.a[0] != o.a[1] && post.present[o.a[1]] && !post.moved[o.a[1]])
                {
                    std::size_t expected = 0;
                    for (auto& e : m[o.a[1]].el) expected += LS::copy_counted_objects(e);
                    if (R().copy_ctor != expected)
                        report("C06", "registry", "copy:constructor-count",
                               "copying a vector with %zu non-trivially-copyable objects ran %lu copy constructors", expected,
                               R().copy_ctor);
                }
                break;
            case O_XR:
                if (o.a[3] != 2 && xm[o.a[0]].present)
                {
                    const std::size_t expected = LS::copy_counted_objects(xm[o.a[0]].e);
                    if (R().copy_ctor != expected)
                        report("C06", "registry", "element-copy:constructor-count",
                               "constructing an element from a (const) reference to %zu non-trivially-copyable objects ran %lu "
                               "copy constructors",
                               expected, R().copy_ctor);
                }
                break;
            case O_XCC:
                if (xm[o.a[1]].present)
                {
                    const std::size_t expected = LS::copy_counted_objects(xm[o.a[1]].e);
                    if (R().copy_ctor != expected)
                        report("C06", "registry", "element-copy:constructor-count",
                               "copy constructing an element with %zu non-trivially-copyable objects ran %lu copy constructors",
                               expected, R().copy_ctor);
                }
                break;
            case O_MA:
                // C08: between unequal non-propagating allocators the elements are transferred one by one - exactly one
                // move construction per stored non-trivial object, no copy, into memory of the target's allocator
                if constexpr (!TR::ae && !TR::mc && LS::HAS_TRACKED)
                {
                    const int src = o.a[0], dst = o.a[1];
                    if (src != dst && m[src].arena != m[dst].arena && !pre.moved[src])
                    {
                        std::size_t expected = 0;
                        for (auto& e : m[dst].el) expected += LS::tracked_objects(e);
                        if (R().move_ctor != expected || R().copy_ctor != 0)
                            report("C08", "allocator", "unequal-move-assign:transfer",
                                   "move assignment between unequal allocators made %lu move and %lu copy constructions for %zu "
                                   "stored objects",
                                   R().move_ctor, R().copy_ctor, expected);
                        if (post.block[dst] >= 0 && post.block[dst] == pre.block[src])
                            report("C08", "allocator", "unequal-move-assign:stole-block",
                                   "move assignment between unequal allocators took over the source's block");
                    }
                }
                break;
            default:
                break;
        }
        // C05 footprint clause: the target consumes at most max(before, source, fresh vector of the same
        // capacity and payload budget) - the third term is obtained by constructing that fresh vector
        {
            int target = -1, source = -1;
            if (o.k == O_RS) target = t;
            if (o.k == O_CC || o.k == O_CA || o.k == O_MC || o.k == O_MA)
            {
                source = o.a[0];
                target = o.a[1];
            }
            if (target >= 0 && target != source && post.present[target] && !post.moved[target])
            {
                std::size_t bound = pre.present[target] && !pre.moved[target] ? pre.consumed[target] : 0;
                if (source >= 0) bound = std::max(bound, pre.consumed[source]);
                std::size_t fresh = 0;
                {
                    L().in_lib = true;
                    Vec tmp = make_temp(m[target].cap, m[target].budget, m[target].fixed, m[target].arena);
                    L().in_lib = false;
                    if (const Block* b = find_block(reinterpret_cast<uintptr_t>(tmp.data_begin()), true)) fresh = b->bytes;
                }
                bound = std::max(bound, fresh);
                if (post.consumed[target] > bound)
                    report("C05", "footprint",
                           (source >= 0 && LS::AMAX > 1 && post.consumed[target] == pre.consumed[source] * LS::AMAX)
                               ? "grows-beyond-bound:source-bytes-taken-as-units"
                               : "grows-beyond-bound",
                           "%s: the vector now consumes %zu bytes; before %zu, source %zu, fresh vector with the same "
                           "capacity and budget %zu",
                           OP_NAMES[o.k], post.consumed[target], pre.present[target] ? pre.consumed[target] : 0,
                           source >= 0 ? pre.consumed[source] : 0, fresh);
            }
        }
        if (o.k == O_RS)
        {
            const std::size_t n = static_cast<std::size_t>(o.a[1]);
            if (post.cap[t] < pre.cap[t])
                report("C10", "reserve", "capacity-reduced", "reserve(%zu) reduced capacity() from %zu to %zu", n,
                       pre.cap[t], post.cap[t]);
            if (n > pre.cap[t] && post.cap[t] != n && !last_failed)
                report("C10", "reserve", "capacity!=n", "after reserve(%zu) beyond capacity %zu capacity() == %zu", n,
                       pre.cap[t], post.cap[t]);
            if (post.size[t] != pre.size[t])
                report("C10", "reserve", "size-changed", "reserve(%zu) changed size() from %zu to %zu", n, pre.size[t],
                       post.size[t]);
            if (n <= pre.cap[t] && !pre.canon.empty())
            {
                if (canon(false) != pre.canon)
                    report("C10", "reserve", "noop-changes-state",
                           "reserve(%zu) within capacity %zu changed the state of the vector", n, pre.cap[t]);
                if (allocs != 0)
                    report("C10", "reserve", "noop-allocates", "reserve(%zu) within capacity %zu allocated", n,
                           pre.cap[t]);
            }
        }
    }

    // ---------------------------------------------------------------- state monitors
    template <std::size_t... I>
    static std::array<std::size_t, LS::NF> lib_fixed_sizes(const Vec& vv, std::index_sequence<I...>)
    {
        return {vv.template get_fixed_size<I>()...};
    }

    template <class Ref>
    void check_layout(const Ref& r, const Elem& me, uintptr_t elem_start_expected, bool check_start, const char* where,
                      uintptr_t& elem_end_out)
    {
        auto ex = LS::extents(r);
        const auto rb = reinterpret_cast<uintptr_t>(r.data_begin());
        const auto re = reinterpret_cast<uintptr_t>(r.data_end());
        elem_end_out = re;
        // C04: counts
        for (std::size_t k = 0; k < N; ++k)
        {
            const std::size_t want = LS::kinds[k] == P ? 1 : me.f[k].size();
            if (ex[k].count != want)
                report("C04", "layout", std::string(where) + ":count", "%s: field %zu has %zu objects, expected %zu",
                       where, k, ex[k].count, want);
        }
        if (rb > ex[0].addr)
            report("C04", "layout", std::string(where) + ":begin", "%s: data_begin() lies behind the first field", where);
        for (std::size_t k = 0; k + 1 < N; ++k)
            if (ex[k].addr + ex[k].bytes > ex[k + 1].addr)
                report("C04", "layout", std::string(where) + ":order",
                       "%s: field %zu (end) overlaps or follows field %zu (begin)", where, k, k + 1);
        if (ex[N - 1].addr + ex[N - 1].bytes != re)
            report("C04", "layout", std::string(where) + ":end", "%s: data_end() is not the end of the last field", where);
        // C03
        for (std::size_t k = 0; k < N; ++k)
            if (LS::has_align[k] && ex[k].addr % LS::aligns[k] != 0)
                report("C03", "alignment", std::string(where) + ":misaligned",
                       "%s: field %zu (AlignAs %zu) at address = %zu (mod %zu)", where, k, LS::aligns[k],
                       static_cast<std::size_t>(ex[k].addr % LS::aligns[k]), LS::aligns[k]);
        // C05: tight packing
        uintptr_t cur = check_start ? elem_start_expected : rb;
        if (check_start && rb != elem_start_expected)
            report("C05", "packing", std::string(where) + ":element-start",
                   "%s: element starts %ld bytes after the lowest suitably aligned address", where,
                   static_cast<long>(rb - elem_start_expected));
        for (std::size_t k = 0; k < N; ++k)
        {
            const uintptr_t want = (cur + LS::aligns[k] - 1) / LS::aligns[k] * LS::aligns[k];
            if (ex[k].addr != want)
            {
                report("C05", "packing", std::string(where) + ":field",
                       "%s: field %zu starts %ld bytes after the lowest suitably aligned address", where, k,
                       static_cast<long>(ex[k].addr - want));
                break;
            }
            cur = ex[k].addr + ex[k].bytes;
        }
    }

    void inspect_vec(int t, std::set<uintptr_t>& held, std::ostringstream& ob)
    {
        Vec& vv = *v[t];
        const Vec& cv = vv;
        VM& mm = m[t];
        const std::size_t n = mm.el.size();
        ob << "v" << t << ":" << cv.size() << "/" << cv.capacity() << ";";
        // ---- sizes
        if (cv.size() != n) report("VAL", "values", "size", "size() == %zu, model %zu", cv.size(), n);
        if (cv.empty() != (n == 0)) report("VAL", "values", "empty", "empty() == %d, model size %zu", cv.empty(), n);
        if (cv.capacity() != mm.cap) report("VAL", "values", "capacity", "capacity() == %zu, model %zu", cv.capacity(), mm.cap);
        {
            auto fs = lib_fixed_sizes(cv, std::make_index_sequence<LS::NF>{});
            for (std::size_t i = 0; i < LS::NF; ++i)
                if (fs[i] != mm.fixed[i])
                    report("VAL", "values", "fixed-size", "get_fixed_size<%zu>() == %zu, model %zu", i, fs[i], mm.fixed[i]);
        }
        if (cv.get_allocator().arena() != mm.arena)
            report("C08", "allocator", "arena", "get_allocator() is arena %d, allocator_traits rules give %d",
                   cv.get_allocator().arena(), mm.arena);
        if ((cv.begin() == cv.end()) != (n == 0))
            report("VAL", "values", "begin==end", "begin()==end() is %d with model size %zu", cv.begin() == cv.end(), n);
        if (static_cast<std::size_t>(cv.end() - cv.begin()) != n)
            report("VAL", "values", "end-begin", "end()-begin() == %ld, model %zu", static_cast<long>(cv.end() - cv.begin()), n);
        // ---- iterator algebra (C11): every pair of positions in [0, size], mutable and const iterators
        {
            const auto ni = static_cast<std::ptrdiff_t>(std::min(n, cv.size()));
            auto fail = [&](const char* what) { report("C11", "iterator", what, "iterator algebra: %s is wrong", what); };
            for (std::ptrdiff_t i = 0; i <= ni; ++i)
            {
                auto it = vv.begin() + i;
                typename Vec::const_iterator cit = it;  // conversion keeps the position
                if (it.index() != static_cast<std::size_t>(i)) fail("begin()+i");
                if (!(cit == cv.begin() + i) || cit != cv.begin() + i) fail("iterator -> const_iterator conversion");
                if (it - vv.begin() != i || cv.end() - cit != ni - i) fail("difference");
                if (!(vv.end() - (ni - i) == it)) fail("end()-k");
                {
                    auto a = it;
                    if (i < ni && !(++a == vv.begin() + (i + 1))) fail("pre-increment");
                    a = it;
                    if (i < ni && (!(a++ == it) || !(a == vv.begin() + (i + 1)))) fail("post-increment");
                    a = it;
                    if (i > 0 && !(--a == vv.begin() + (i - 1))) fail("pre-decrement");
                    a = it;
                    if (i > 0 && (!(a-- == it) || !(a == vv.begin() + (i - 1)))) fail("post-decrement");
                }
                for (std::ptrdiff_t j = 0; j <= ni; ++j)
                {
                    auto jt = vv.begin() + j;
                    if ((it == jt) != (i == j) || (it != jt) != (i != j)) fail("==/!=");
                    if ((it < jt) != (i < j)) fail("<");
                    if ((it <= jt) != (i <= j)) fail("<=");
                    if ((it > jt) != (i > j)) fail(">");
                    if ((it >= jt) != (i >= j)) fail(">=");
                    if (jt - it != j - i) fail("it - it");
                    if (!(it + (j - i) == jt) || !(jt - (j - i) == it)) fail("it +/- n");
                    auto a = it;
                    a += (j - i);
                    if (!(a == jt)) fail("+=");
                    a -= (j - i);
                    if (!(a == it)) fail("-=");
                    if (j < ni && i <= j)
                    {
                        if (reinterpret_cast<uintptr_t>(it[j - i].data_begin()) != reinterpret_cast<uintptr_t>(vv[static_cast<std::size_t>(j)].data_begin()))
                            fail("it[n]");
                        if (reinterpret_cast<uintptr_t>((*jt).data_begin()) != reinterpret_cast<uintptr_t>(jt->data_begin())) fail("operator->");
                    }
                }
            }
        }
        // ---- block
        const auto db = reinterpret_cast<uintptr_t>(cv.data_begin());
        const auto de = reinterpret_cast<uintptr_t>(cv.data_end());
        const Block* blk = db ? find_block(db, true) : nullptr;
        if (n == 0)
        {
            if (db != de)
                report("C18", "empty", "data_begin!=data_end", "empty vector: data_end() - data_begin() == %ld",
                       static_cast<long>(de - db));
            if (db != 0 && (!blk || !blk->live))
                report("C18", "empty", "data_begin-wild", "empty vector: data_begin() is neither null nor inside/one past a live block");
            if (de != 0)
            {
                const Block* be = find_block(de, true);
                if (!be || !be->live)
                    report("C18", "empty", "data_end-wild", "empty vector: data_end() is neither null nor inside/one past a live block");
            }
        }
        if (blk)
        {
            if (blk->arena != cv.get_allocator().arena())
                report("C08", "allocator", "block-arena", "data block belongs to arena %d, get_allocator() is arena %d",
                       blk->arena, cv.get_allocator().arena());
            if (cv.memory_consumption() < blk->bytes)
                report("C05", "footprint", "memory_consumption<block",
                       "memory_consumption() == %zu but the data block has %zu bytes", cv.memory_consumption(), blk->bytes);
            if (n > 0 || db != de)
            {
                if (de < db || de - db > cv.memory_consumption())
                    report("C02", "bounds", "data_end-data_begin>memory_consumption",
                           "data_end() - data_begin() == %ld, memory_consumption() == %zu", static_cast<long>(de - db),
                           cv.memory_consumption());
            }
        }
        else if (n > 0)
        {
            report("C02", "bounds", "data_begin-outside", "data_begin() does not point into a block of the allocator");
        }
        // ---- elements
        const std::size_t lim = std::min(n, cv.size());
        uintptr_t expect_start = db;
        auto it = vv.begin();
        auto cit = cv.begin();
        for (std::size_t i = 0; i < lim; ++i, ++it, ++cit)
        {
            const Elem& me = mm.el[i];
            auto r = vv[i];
            auto cr = cv[i];
            const Elem a = LS::read(r);
            ob << to_string(a);
            const bool value_ok = a == me;
            if (!value_ok)
                report("VAL", "values", "operator[]", "element %zu reads %s through operator[], model %s", i,
                       to_string(a).c_str(), to_string(me).c_str());
            // (the other access paths are only compared when operator[] agrees - no piles of follow-up reports -
            //  but the layout monitors below always run: a wrong count or position is their business)
            if (value_ok)
            {
            if (LS::read(cr) != me) report("VAL", "values", "const operator[]", "element %zu differs through const operator[]", i);
            if (LS::read(*it) != me) report("VAL", "values", "iterator", "element %zu differs through forward iteration", i);
            if (LS::read(*cit) != me) report("VAL", "values", "const_iterator", "element %zu differs through const iteration", i);
            if (LS::read(vv.begin()[static_cast<std::ptrdiff_t>(i)]) != me)
                report("VAL", "values", "iterator[]", "element %zu differs through begin()[i]", i);
            if (LS::read(*(cv.end() - static_cast<std::ptrdiff_t>(n - i))) != me)
                report("VAL", "values", "end()-k", "element %zu differs through *(end()-k)", i);
            if (i == 0 && LS::read(cv.front()) != me) report("VAL", "values", "front", "front() differs from the model");
            if (i == 0 && LS::read(vv.front()) != me) report("VAL", "values", "front", "front() differs from the model");
            if (i + 1 == n && LS::read(cv.back()) != me) report("VAL", "values", "back", "back() differs from the model");
            if (i + 1 == n && LS::read(vv.back()) != me) report("VAL", "values", "back", "back() differs from the model");
            }
            if constexpr (N == 2)
            {
                auto&& [s0, s1] = r;
                if (reinterpret_cast<uintptr_t>(&s0) == 0 || reinterpret_cast<uintptr_t>(&s1) == 0)
                    report("VAL", "values", "structured-binding", "structured binding yields null");
                auto&& [c0, c1] = cr;
                (void)c0;
                (void)c1;
            }
            else if constexpr (N == 3)
            {
                auto&& [s0, s1, s2] = r;
                (void)s0;
                (void)s1;
                (void)s2;
            }
            if (reinterpret_cast<uintptr_t>(it.data()) != reinterpret_cast<uintptr_t>(r.data_begin()))
                report("C04", "layout", "iterator.data", "iterator.data() != reference.data_begin() for element %zu", i);
            // layout
            uintptr_t elem_end = 0;
            check_layout(r, me, expect_start, true, "vector", elem_end);
            auto ex = LS::extents(r);
            const auto rb = reinterpret_cast<uintptr_t>(r.data_begin());
            if (i == 0 && rb < db) report("C04", "layout", "vector:first", "first element starts in front of data_begin()");
            if (rb < expect_start && i > 0)
                report("C04", "layout", "vector:element-order", "element %zu starts inside or in front of element %zu", i, i - 1);
            if (elem_end > de) report("C04", "layout", "vector:data_end", "element %zu ends behind data_end()", i);
            if (blk)
                for (std::size_t k = 0; k < N; ++k)
                    if (ex[k].addr < blk->p || ex[k].addr + ex[k].bytes > blk->p + blk->bytes)
                        report("C02", "bounds", "field-outside-block", "element %zu field %zu lies outside the data block", i, k);
            for (std::size_t k = 0; k < N; ++k)
                if (LS::tracked[k])
                    for (std::size_t p = 0; p < ex[k].count; ++p) held.insert(ex[k].addr + p * LS::sizes[k]);
            expect_start = (elem_end + LS::AMAX - 1) / LS::AMAX * LS::AMAX;
        }
        // C05: a full vector without VaryingSize uses exactly memory_consumption() bytes
        // (the clause is about the layout computation: a vector that kept a larger block from before an assignment is
        // full by capacity() without being tight, which the footprint clause explicitly allows)
        if (LS::NV == 0 && n == mm.cap && n > 0 && lim == n && exact_block[t])
        {
            const std::size_t used = de - db;
            const std::size_t rounded = (used + LS::AMAX - 1) / LS::AMAX * LS::AMAX;
            if (rounded != cv.memory_consumption())
                report("C05", "footprint",
                       (LS::AMAX > 1 && cv.memory_consumption() == rounded * LS::AMAX) ? "full-vector:bytes-taken-as-units" : "full-vector",
                       "full vector uses %zu bytes (rounded %zu) but memory_consumption() == %zu", used, rounded,
                       cv.memory_consumption());
        }
    }

    void inspect_elem(int e, std::set<uintptr_t>& held, std::ostringstream& ob)
    {
        El& el = *x[e];
        const El& cel = el;
        XM& q = xm[e];
        const Elem a = LS::read(el);
        ob << "x" << e << to_string(a);
        if (a != q.e)
            report("VAL", "values", "element", "element slot %d reads %s, model %s", e, to_string(a).c_str(),
                   to_string(q.e).c_str());
        else if (LS::read(cel) != q.e)
            report("VAL", "values", "const element", "element slot %d differs through const access", e);
        if (el.get_allocator().arena() != q.arena)
            report("C08", "allocator", "element-arena", "element get_allocator() is arena %d, expected %d",
                   el.get_allocator().arena(), q.arena);
        typename Vec::reference r{el};
        uintptr_t end = 0;
        check_layout(r, q.e, 0, false, "element", end);
        auto ex = LS::extents(r);
        const Block* blk = find_block(ex[0].addr, true);
        if (!blk || !blk->live)
            report("C07,C12", "ownership", "element-storage", "element storage is not a live block of the allocator");
        else
        {
            if (blk->arena != el.get_allocator().arena())
                report("C08,C12", "allocator", "element-block-arena",
                       "element storage belongs to arena %d, get_allocator() is arena %d", blk->arena,
                       el.get_allocator().arena());
            for (std::size_t k = 0; k < N; ++k)
                if (ex[k].addr < blk->p || ex[k].addr + ex[k].bytes > blk->p + blk->bytes)
                    report("C02,C12", "bounds", "element-field-outside-block", "element field %zu lies outside its block", k);
            for (int t = 0; t < 2; ++t)
                if (m[t].present && !m[t].moved)
                {
                    const Block* vb = find_block(reinterpret_cast<uintptr_t>(v[t]->data_begin()), true);
                    if (vb && vb == blk)
                        report("C12", "ownership", "element-aliases-vector", "element storage is the vector's block");
                }
        }
        for (std::size_t k = 0; k < N; ++k)
            if (LS::tracked[k])
                for (std::size_t p = 0; p < ex[k].count; ++p) held.insert(ex[k].addr + p * LS::sizes[k]);
    }

    void inspect()
    {
        std::ostringstream ob;
        std::set<uintptr_t> held;
        bool any_moved = false, any_unspec = false;
        for (int t = 0; t < 2; ++t)
        {
            if (!m[t].present) continue;
            if (m[t].moved)
            {
                any_moved = true;
                continue;
            }
            if (m[t].unspec)
            {
                // only validity: size() elements are readable live objects
                Vec& vv = *v[t];
                for (std::size_t i = 0; i < vv.size() && i < 16; ++i)
                {
                    auto r = vv[i];
                    (void)LS::read(r);
                    auto ex = LS::extents(r);
                    for (std::size_t k = 0; k < N; ++k)
                        if (LS::tracked[k])
                            for (std::size_t p = 0; p < ex[k].count && p < 16; ++p) held.insert(ex[k].addr + p * LS::sizes[k]);
                }
                continue;
            }
            inspect_vec(t, held, ob);
        }
        for (int e = 0; e < 3; ++e)
        {
            if (!xm[e].present) continue;
            if (xm[e].moved)
            {
                any_moved = true;
                continue;
            }
            if (xm[e].unspec)
            {
                // an element has no query that tells whether it holds anything: it is not read, and the objects it may
                // or may not still hold are accounted for once it has been assigned to or destroyed
                any_unspec = true;
                continue;
            }
            inspect_elem(e, held, ob);
        }
        // ---- C06: live objects are exactly the logically held ones
        if (LS::HAS_TRACKED)
        {
            HarnessScope hs;
            for (auto& kv : R().live)
            {
                if (held.count(kv.first)) continue;
                if (any_moved && kv.second.moved) continue;  // objects left in a moved-from container are unspecified
                if (any_unspec) continue;
                const Block* b = find_block(kv.first);
                report("C06", "registry", b ? "stray-live-object" : "stray-live-object-external",
                       "a live object (value %d) is not held by any container (%s)", kv.second.val,
                       b ? "inside an allocator block" : "outside allocator memory");
                break;
            }
            for (auto a : held)
                if (!R().live.count(a))
                {
                    report("C06", "registry", "held-object-not-alive", "a logically held object is not alive");
                    break;
                }
        }
        check_canaries();
        if (L().foreign_new)
            report("C07", "ledger", "operator-new-in-library", "library code called operator new %u time(s) directly",
                   L().foreign_new);
        obs = ob.str();
    }

    // destroy everything and look at the ledger / registry (C07 terminal check). Call in a throw-away process.
    void terminal_check()
    {
        begin_op();
        for (int e = 0; e < 3; ++e) LIB(x[e].reset());
        for (int t = 0; t < 2; ++t) LIB(v[t].reset());
        std::size_t leaked = 0, bytes = 0;
        const Block* first = nullptr;
        for (auto& kv : L().blocks)
            if (kv.second.live)
            {
                ++leaked;
                bytes += kv.second.bytes;
                if (!first) first = &kv.second;
            }
        if (leaked)
            report("C07", "ledger-terminal", first->elem_size == sizeof(std::size_t) ? "leak:size_t-block" : "leak:block",
                   "%zu block(s) / %zu bytes still allocated after every container was destroyed", leaked, bytes);
        if (!R().live.empty())
            report("C06", "registry-terminal", "object-never-destroyed",
                   "%zu object(s) still alive after every container was destroyed", R().live.size());
    }

#ifdef HX_FOOTPRINT
    // ---------------------------------------------------------------- C19: access footprint of const operations
    struct Region
    {
        uintptr_t lo, hi;
        bool hit(uintptr_t a, std::size_t n) const { return a < hi && a + n > lo; }
    };
    long fp_ops = 0, fp_reads = 0, fp_writes = 0, fp_private_writes = 0, fp_other_writes = 0, fp_atomics = 0;

    template <class T>
    static long raw(const T& x)
    {
        if constexpr (IS_TRACKED<T>)
            return x.val;
        else if constexpr (std::is_same_v<T, Odd3>)
            return x.a;
        else if constexpr (std::is_same_v<T, W8>)
            return x.v;
        else if constexpr (std::is_same_v<T, Asg> || std::is_same_v<T, Cpy>)
            return x.val;
        else if constexpr (std::is_same_v<T, Amp>)
            return x.v;
        else if constexpr (std::is_same_v<T, Mva>)
            return x.val;
        else if constexpr (std::is_same_v<T, Str>)
            return static_cast<long>(x.size()) + (x.empty() ? 0 : x[0]);
        else if constexpr (std::is_same_v<T, Big32>)
            return x.v + x.pad[6];
        else if constexpr (std::is_same_v<T, Emp>)
            return 0;
        else if constexpr (std::is_same_v<T, Ptr>)
            return x ? *x : 0;
        else
            return static_cast<long>(x);
    }
    template <std::size_t I, class Ref>
    static long touch_field(const Ref& r)
    {
        using Di = typename LS::template At<I>;
        long acc = 0;
        if constexpr (Di::kind == P)
            acc += raw(cntgs::get<I>(r));
        else
            for (auto& x : cntgs::get<I>(r)) acc += raw(x);
        return acc;
    }
    template <class Ref, std::size_t... I>
    static long touch_impl(const Ref& r, std::index_sequence<I...>)
    {
        return (touch_field<I>(r) + ... + 0);
    }
    template <class Ref>
    static long touch(const Ref& r)
    {
        return touch_impl(r, std::make_index_sequence<N>{});
    }

    static Region stack_region()
    {
        pthread_attr_t attr;
        void* addr = nullptr;
        std::size_t size = 0;
        pthread_getattr_np(pthread_self(), &attr);
        pthread_attr_getstack(&attr, &addr, &size);
        pthread_attr_destroy(&attr);
        return Region{reinterpret_cast<uintptr_t>(addr), reinterpret_cast<uintptr_t>(addr) + size};
    }

    // run f with recording on; shared = memory no access of kind `forbid_reads ? any : write` may touch
    template <class F>
    void fp_run(const char* name, const std::vector<Region>& shared, bool forbid_reads, F&& f)
    {
        static const Region stack = stack_region();
        const unsigned op_before = L().op_serial;
        ++L().op_serial;  // blocks born from here on belong to this operation
        long sink = 0;
        hx_fp_begin();
        sink = f();
        hx_fp_end();
        (void)sink;
        ++fp_ops;
        std::size_t n = 0;
        const HxAccess* log = hx_fp_log(&n);
        fp_atomics += hx_fp_atomics();
        const Region statics{reinterpret_cast<uintptr_t>(&__data_start), reinterpret_cast<uintptr_t>(&_end)};
        bool reported_shared = false, reported_static = false;
        for (std::size_t i = 0; i < n; ++i)
        {
            const HxAccess& a = log[i];
            if (a.size == 0) continue;
            if (a.write)
                ++fp_writes;
            else
                ++fp_reads;
            if (stack.hit(a.addr, a.size)) continue;
            const bool matters = a.write || forbid_reads;
            if (!matters) continue;
            bool in_shared = false;
            for (auto& r : shared) in_shared = in_shared || r.hit(a.addr, a.size);
            if (in_shared)
            {
                if (!reported_shared)
                    report("C19", "footprint", std::string(forbid_reads ? "touches-other-vector:" : "const-op-writes-shared:") + name,
                           "%s: %s of %u bytes hits memory shared with other threads (the vector object, its block or its table)", name,
                           a.write ? "write" : "read", a.size);
                reported_shared = true;
                continue;
            }
            if (!a.write) continue;
            if (const Block* b = find_block(a.addr))
            {
                if (b->born_op > op_before)
                {
                    ++fp_private_writes;
                    continue;
                }
            }
            // the harness' own bookkeeping objects (allocator ledger, object registry, violation list)
            const Region own[] = {{reinterpret_cast<uintptr_t>(&L()), reinterpret_cast<uintptr_t>(&L()) + sizeof(LedgerState)},
                                  {reinterpret_cast<uintptr_t>(&R()), reinterpret_cast<uintptr_t>(&R()) + sizeof(Registry)},
                                  {reinterpret_cast<uintptr_t>(&viols()), reinterpret_cast<uintptr_t>(&viols()) + sizeof(viols())}};
            bool harness_own = false;
            for (auto& r : own) harness_own = harness_own || r.hit(a.addr, a.size);
            if (harness_own) continue;
            if (statics.hit(a.addr, a.size))
            {
                if (!reported_static)
                    report("C19", "footprint", std::string("writes-static-storage:") + name, "%s writes %u bytes of static storage", name, a.size);
                reported_static = true;
                continue;
            }
            ++fp_other_writes;
        }
        if (hx_fp_overflow()) report("INTERNAL", "footprint", "log-overflow", "access log overflow in %s", name);
    }

    std::vector<Region> live_block_regions() const
    {
        std::vector<Region> r;
        for (auto& kv : L().blocks)
            if (kv.second.live) r.push_back(Region{kv.second.p, kv.second.p + std::max<std::size_t>(kv.second.bytes, 1)});
        return r;
    }

    void footprint_monitors()
    {
        if (!m[0].present || m[0].moved) return;
        hx_fp_set_suppress(&L().harness_depth);
        Vec& S = *v[0];
        const Vec& cs = S;
        std::vector<Region> shared = live_block_regions();
        shared.push_back(Region{reinterpret_cast<uintptr_t>(&S), reinterpret_cast<uintptr_t>(&S) + sizeof(Vec)});
        // nothing of the library may be called between the operation under test and the recorded const operations: a
        // lazily filled cache would be warmed by the harness and the write would never be seen
        const std::string before = canon(false, false);
        unsigned char object_before[sizeof(Vec)];
        std::memcpy(object_before, static_cast<const void*>(&S), sizeof(Vec));
        const std::size_t n = m[0].el.size();
        fp_run("queries", shared, false,
               [&]
               {
                   long a = static_cast<long>(cs.size() + cs.capacity() + cs.empty() + cs.memory_consumption());
                   a += reinterpret_cast<long>(cs.data_begin()) + reinterpret_cast<long>(cs.data_end()) + reinterpret_cast<long>(cs.data());
                   a += cs.get_allocator().arena();
                   auto fs = lib_fixed_sizes(cs, std::make_index_sequence<LS::NF>{});
                   for (auto f : fs) a += static_cast<long>(f);
                   return a;
               });
        for (std::size_t i = 0; i < n; ++i)
            fp_run("operator[]", shared, false, [&] { return touch(cs[i]); });
        if (n > 0)
        {
            fp_run("front/back", shared, false, [&] { return touch(cs.front()) + touch(cs.back()); });
            fp_run("iteration", shared, false,
                   [&]
                   {
                       long a = 0;
                       for (auto it = cs.begin(); it != cs.end(); ++it) a += touch(*it);
                       for (auto&& r : cs) a += touch(r);
                       auto b = cs.begin(), e = cs.end();
                       a += (e - b) + (b < e) + (b == e) + (b + 1 <= e) + touch(b[static_cast<std::ptrdiff_t>(n - 1)]) + touch(*(e - 1));
                       a += reinterpret_cast<long>(b.data());
                       typename Vec::const_iterator ci = S.begin();  // conversion from the mutable iterator
                       a += touch(*ci) + touch(*ci.operator->().operator->());
                       return a;
                   });
        }
#if HAVE_CMP
        fp_run("compare-self", shared, false, [&] { return static_cast<long>((cs == cs) + (cs != cs) + (cs < cs) + (cs <= cs) + (cs > cs) + (cs >= cs)); });
#endif
#if HAVE_COPY
        if constexpr (COPYABLE)
        {
            // a copy takes its allocator from select_on_container_copy_construction: allocating through the shared source's
            // own allocator instead would make every reader use (and modify) the same memory resource
            const int copy_arena = (TR::soccc && !TR::ae) ? cs.get_allocator().arena() + 100 : cs.get_allocator().arena();
            int got_arena = copy_arena;
            fp_run("copy-construct", shared, false,
                   [&]
                   {
                       Vec d(cs);
                       got_arena = d.get_allocator().arena();
                       return static_cast<long>(d.size());
                   });
            if (got_arena != copy_arena)
                report("C19", "footprint", "copy-uses-source-allocator:vector",
                       "a copy of the shared vector allocates through arena %d, select_on_container_copy_construction gives %d", got_arena, copy_arena);
#if HAVE_CMP
            {
                L().in_lib = true;
                Vec c(cs);
                L().in_lib = false;
                std::vector<Region> sh2 = live_block_regions();
                sh2.push_back(Region{reinterpret_cast<uintptr_t>(&S), reinterpret_cast<uintptr_t>(&S) + sizeof(Vec)});
                const Vec& cc = c;
                fp_run("compare-with-copy", sh2, false, [&] { return static_cast<long>((cs == cc) + (cc == cs) + (cs < cc) + (cc < cs) + (cs != cc)); });
            }
#endif
#if HAVE_ELEM
            for (std::size_t i = 0; i < n; ++i)
                fp_run("element-from-const_reference", shared, false,
                       [&]
                       {
                           El e(cs[i]);
                           const El& ce = e;
                           return touch(typename Vec::const_reference{ce});
                       });
#endif
            if constexpr (LS::HAS_TRACKED)
            {
                // a copy whose k-th copy construction throws: whatever the copy does to clean up, it must not touch the
                // (shared) source
                std::size_t objects = 0;
                for (auto& e : m[0].el) objects += LS::tracked_objects(e);
                for (std::size_t k = 1; k <= objects && k <= 6; ++k)
                {
                    const unsigned throw_mark = L().op_serial + 1;  // fp_run advances the serial before running
                    fp_run("copy-construct with a throwing copy constructor", shared, false,
                           [&]
                           {
                               R().copies_seen = 0;
                               R().copy_throw_at = k;
                               long r = 0;
                               try
                               {
                                   Vec d(cs);
                                   r = static_cast<long>(d.size());
                               }
                               catch (const CopyFault&)
                               {
                                   r = -1;
                               }
                               R().copy_throw_at = 0;
                               return r;
                           });
                    // the abandoned copy does not destroy what it had constructed before the exception and does not
                    // return its address table (the library makes no promise for throwing value types); those objects
                    // and blocks belong to the private copy and are not the subject here
                    {
                        HarnessScope hs;
                        for (auto& kv : L().blocks)
                            if (kv.second.live && kv.second.born_op >= throw_mark) kv.second.live = false;
                        for (auto it = R().live.begin(); it != R().live.end();)
                        {
                            const Block* b = find_block(it->first);
                            if (!b || !b->live)
                                it = R().live.erase(it);
                            else
                                ++it;
                        }
                    }
                }
            }
#if HAVE_ELEM
            if (n > 0)
            {
                // a shared ELEMENT: const operations on it (reading, copying it, assigning it to a private element,
                // comparing it) and construction of elements from a const lvalue of the MUTABLE reference type
                L().in_lib = true;
                El se(cs[0]);
                L().in_lib = false;
                std::vector<Region> sh3 = live_block_regions();  // the vector's and the shared element's blocks
                sh3.push_back(Region{reinterpret_cast<uintptr_t>(&S), reinterpret_cast<uintptr_t>(&S) + sizeof(Vec)});
                sh3.push_back(Region{reinterpret_cast<uintptr_t>(&se), reinterpret_cast<uintptr_t>(&se) + sizeof(El)});
                const El& ce = se;
                const std::string before_e = canon(false, false);
                unsigned char elem_before[sizeof(El)];
                std::memcpy(elem_before, static_cast<const void*>(&se), sizeof(El));
                fp_run("element.read", sh3, false, [&] { return touch(typename Vec::const_reference{ce}); });
                const int ecopy_arena = (TR::soccc && !TR::ae) ? ce.get_allocator().arena() + 100 : ce.get_allocator().arena();
                int egot_arena = ecopy_arena;
                fp_run("element.copy-construct", sh3, false,
                       [&]
                       {
                           El c(ce);
                           egot_arena = c.get_allocator().arena();
                           return touch(typename Vec::const_reference{std::as_const(c)});
                       });
                if (egot_arena != ecopy_arena)
                    report("C19", "footprint", "copy-uses-source-allocator:element",
                           "a copy of the shared element allocates through arena %d, select_on_container_copy_construction gives %d", egot_arena,
                           ecopy_arena);
                fp_run("element.copy-construct-with-allocator", sh3, false,
                       [&]
                       {
                           El c(ce, ce.get_allocator());
                           return touch(typename Vec::const_reference{std::as_const(c)});
                       });
                for (std::size_t i = 0; i < n; ++i)
                    fp_run("element.copy-assign-from-shared", sh3, false,
                           [&]
                           {
                               El priv(cs[i]);  // private target, same or different sizes
                               priv = ce;
                               return touch(typename Vec::const_reference{std::as_const(priv)});
                           });
#if HAVE_CMP
                fp_run("element.compare", sh3, false,
                       [&] { return static_cast<long>((ce == ce) + (ce != ce) + (ce < ce) + (ce == cs[0]) + (cs[0] == ce) + (ce < cs[0])); });
#endif
                fp_run("element-from-const-lvalue-of-mutable-reference", sh3, false,
                       [&]
                       {
                           const typename Vec::reference r = S[0];  // const-qualified mutable reference: still a read-only use
                           El c(r);
                           const typename Vec::reference rs{se};
                           El c2(rs);
                           return touch(typename Vec::const_reference{std::as_const(c)}) + touch(typename Vec::const_reference{std::as_const(c2)});
                       });
                if (canon(false, false) != before_e || std::memcmp(elem_before, static_cast<const void*>(&se), sizeof(El)) != 0)
                    report("C19", "footprint", "const-ops-change-state:element",
                           "const operations on a shared element changed the element object, its block or the vector");
                L().in_lib = true;
            }
            L().in_lib = false;
#endif
            // distinct vectors copied from one another: mutators of a copy never touch the original (or a
            // further copy), whether reading or writing
            auto with_copies = [&](const char* name, auto&& mut)
            {
                L().in_lib = true;
                Vec c1(cs);
                Vec c2(std::as_const(c1));
                L().in_lib = false;
                std::vector<Region> others;
                {
                    // everything except c1's own blocks: S's object and blocks, c2's blocks
                    const Block* b1 = find_block(reinterpret_cast<uintptr_t>(c1.data_begin()), true);
                    for (auto& kv : L().blocks)
                    {
                        if (!kv.second.live) continue;
                        if (b1 && kv.second.serial == b1->serial) continue;
                        if (kv.second.elem_size == sizeof(std::size_t) && kv.second.serial > 0 && b1 && kv.second.serial == b1->serial + 1)
                            continue;  // c1's own table is allocated right after its data block
                        others.push_back(Region{kv.second.p, kv.second.p + std::max<std::size_t>(kv.second.bytes, 1)});
                    }
                    others.push_back(Region{reinterpret_cast<uintptr_t>(&S), reinterpret_cast<uintptr_t>(&S) + sizeof(Vec)});
                }
                fp_run(name, others, true, [&] { return mut(c1); });
            };
            with_copies("copy.clear", [&](Vec& c) { c.clear(); return 0L; });
            if (n > 0)
            {
                with_copies("copy.pop_back", [&](Vec& c) { c.pop_back(); return 0L; });
#if HAVE_ERASE
                if (op_tag_would_overlap_free(0)) with_copies("copy.erase", [&](Vec& c) { c.erase(c.begin()); return 0L; });
#endif
                with_copies("copy.read", [&](Vec& c) { return touch(c[0]); });
            }
#if HAVE_RESERVE
            if (m[0].cap < 6)
                with_copies("copy.reserve", [&](Vec& c)
                            {
                                if constexpr (LS::NV > 0)
                                    c.reserve(m[0].cap + 1, m[0].budget + unit());
                                else
                                    c.reserve(m[0].cap + 1);
                                return 0L;
                            });
#endif
            with_copies("copy.destroy", [&](Vec& c) { Vec moved(std::move(c)); return static_cast<long>(moved.size()); });
        }
#endif
        if (canon(false, false) != before || std::memcmp(object_before, static_cast<const void*>(&S), sizeof(Vec)) != 0)
            report("C19", "footprint", "const-ops-change-state", "the const operations changed the bytes of the vector object or of its blocks");
        obs += ";fp" + std::to_string(fp_ops);
    }
    // erase on the copy is only exercised when it does not run into known finding K1 (overlapping relocation)
    bool op_tag_would_overlap_free(int t)
    {
        if constexpr (LS::NV > 0 && !LS::ALL_TRIVIAL)
        {
            const std::string keep = op_tag;
            tag_relocation(t, 0, 1);
            const bool ok = op_tag != "reloc-overlap";
            op_tag = keep;
            return ok;
        }
        else
        {
            (void)t;
            return true;
        }
    }
#endif  // HX_FOOTPRINT

    // ---------------------------------------------------------------- canonical form
    // with_library = false: only what the harness knows without calling into the library (model, allocator ledger,
    // registry) - used around the recorded const operations of C19, which must not be preceded by unrecorded calls
    std::string canon(bool with_phase = true, bool with_library = true)
    {
        HarnessScope hs;
        Hash128 h;
        std::vector<const Block*> lb;
        for (auto& kv : L().blocks)
            if (kv.second.live) lb.push_back(&kv.second);
        std::sort(lb.begin(), lb.end(), [](const Block* a, const Block* b) { return a->serial < b->serial; });
        auto where = [&](uintptr_t a)
        {
            if (a == 0)
            {
                h.u64(0xAAAA);
                return;
            }
            for (std::size_t i = 0; i < lb.size(); ++i)
                if (a >= lb[i]->p && a <= lb[i]->p + lb[i]->bytes)
                {
                    h.u64(i);
                    h.u64(a - lb[i]->p);
                    return;
                }
            h.u64(0xBBBB);  // outside every live block
        };
        for (int t = 0; t < 2; ++t)
        {
            h.u64(m[t].present);
            h.u64(m[t].moved);
            if (!m[t].present) continue;
            h.u64(m[t].cap);
            h.u64(m[t].budget);
            h.u64(static_cast<uint64_t>(m[t].arena));
            for (auto f : m[t].fixed) h.u64(f);
            h.u64(m[t].el.size());
            for (auto& e : m[t].el) h.str(to_string(e));
            if (m[t].moved || !with_library) continue;
            const Vec& cv = *v[t];
            h.u64(cv.capacity());
            h.u64(cv.size());
            h.u64(static_cast<uint64_t>(cv.get_allocator().arena()));
            where(reinterpret_cast<uintptr_t>(cv.data_begin()));
            where(reinterpret_cast<uintptr_t>(cv.data_end()));
        }
        h.u64(static_cast<uint64_t>(pending_fail));
        for (int e = 0; e < 3; ++e)
        {
            h.u64(xm[e].present);
            h.u64(xm[e].moved);
            if (!xm[e].present) continue;
            h.str(to_string(xm[e].e));
            h.u64(static_cast<uint64_t>(xm[e].arena));
            if (xm[e].moved || !with_library) continue;
            typename Vec::const_reference r{*x[e]};
            where(reinterpret_cast<uintptr_t>(r.data_begin()));
        }
        for (auto* b : lb)
        {
            h.u64(static_cast<uint64_t>(b->arena));
            h.u64(b->bytes);
            h.u64(b->elem_size);
            // the bytes of the block - unless the stored objects contain absolute addresses, which differ from process
            // to process; for such lists the data block is represented by the model contents only
            if (!LS::HAS_ADDRESS_BYTES) h.bytes(reinterpret_cast<const void*>(b->p), b->bytes);
        }
        {
            // live objects in (block order, offset) order - never in absolute address order, which depends on
            // where malloc happened to place the blocks
            std::vector<std::tuple<uint64_t, uint64_t, int>> objs;
            for (auto& kv : R().live)
            {
                uint64_t bi = 0xBBBB, off = 0;
                for (std::size_t i = 0; i < lb.size(); ++i)
                    if (kv.first >= lb[i]->p && kv.first < lb[i]->p + lb[i]->bytes)
                    {
                        bi = i;
                        off = kv.first - lb[i]->p;
                        break;
                    }
                objs.emplace_back(bi, off, kv.second.val);
            }
            std::sort(objs.begin(), objs.end());
            for (auto& o : objs)
            {
                h.u64(std::get<0>(o));
                h.u64(std::get<1>(o));
                h.u64(static_cast<uint64_t>(std::get<2>(o)));
            }
        }
        if (with_phase) h.u64(fill_phase);
        return h.hex();
    }

    // ---------------------------------------------------------------- alphabets
    void vec_mutators(int t, std::vector<Op>& out, bool reduced) const
    {
        const VM& mm = m[t];
        if (!mm.present || mm.moved) return;
        const std::size_t n = mm.el.size();
        // emplace_back: every count vector that fits
        if (n < mm.cap)
        {
            const std::size_t remaining = mm.budget - mm.used();
            std::vector<std::size_t> c(LS::NV, 0);
            for (;;)
            {
                std::vector<std::size_t> scaled = c;
                for (auto& x : scaled) x *= static_cast<std::size_t>(prm.cscale);
                if (LS::payload_bytes(scaled) <= remaining)
                {
                    Op o = mk(O_EB, t);
                    for (std::size_t i = 0; i < LS::NV; ++i) o.a[1 + i] = static_cast<int8_t>(c[i]);
                    out.push_back(o);
                }
                std::size_t k = 0;
                for (; k < LS::NV; ++k)
                {
                    if (c[k] < static_cast<std::size_t>(prm.cmax))
                    {
                        ++c[k];
                        break;
                    }
                    c[k] = 0;
                }
                if (k == LS::NV) break;
            }
        }
        if (COPYABLE && n > 0 && n < mm.cap && !prm.wide)
        {
            // arguments that alias the vector: copies of the first and of the last element
            for (std::size_t i : {std::size_t{0}, n - 1})
            {
                if (i == n - 1 && n == 1) continue;
                if (LS::payload_bytes(mm.el[i]) <= mm.budget - mm.used()) out.push_back(mk(O_EBS, t, static_cast<int>(i)));
            }
        }
        if (prm.wide && n < mm.cap)
        {
            out.push_back(mk(O_FILL, t, 0));
            if (LS::NV > 0) out.push_back(mk(O_FILL, t, 1));
        }
        if (n > 0) out.push_back(mk(O_PB, t));
#if HAVE_ERASE
        if (prm.wide)
        {
            // selected positions: both ends, their neighbours and the middle
            std::vector<std::size_t> pos;
            for (std::size_t q : {std::size_t{0}, std::size_t{1}, n / 2, n >= 2 ? n - 2 : 0, n >= 1 ? n - 1 : 0, n})
                if (q <= n && std::find(pos.begin(), pos.end(), q) == pos.end()) pos.push_back(q);
            std::sort(pos.begin(), pos.end());
            for (auto i : pos)
                if (i < n) out.push_back(mk(O_ER1, t, static_cast<int>(i)));
            for (auto i : pos)
                for (auto j : pos)
                    if (i <= j) out.push_back(mk(O_ER2, t, static_cast<int>(i), static_cast<int>(j)));
        }
        else if (reduced)
        {
            if (n > 0) out.push_back(mk(O_ER1, t, 0));
            if (n > 1) out.push_back(mk(O_ER2, t, 0, static_cast<int>(n)));
        }
        else
        {
            for (std::size_t i = 0; i < n; ++i) out.push_back(mk(O_ER1, t, static_cast<int>(i)));
            for (std::size_t i = 0; i <= n; ++i)
                for (std::size_t j = i; j <= n; ++j) out.push_back(mk(O_ER2, t, static_cast<int>(i), static_cast<int>(j)));
        }
#endif
        out.push_back(mk(O_CL, t));
    }

    void reserve_ops(int t, std::vector<Op>& out, bool rich) const
    {
#if HAVE_RESERVE
        const VM& mm = m[t];
        if (!mm.present || mm.moved) return;
        const int cap = static_cast<int>(mm.cap);
        const int bu = static_cast<int>(mm.budget / unit());
        const int used_u = static_cast<int>((mm.used() + unit() - 1) / unit());
        const int blim = prm.bmax + 2;
        std::set<std::pair<int, int>> seen;
        auto add = [&](int n, int b)
        {
            if (n < 0 || n > prm.nmax) return;
            if (LS::NV == 0) b = 0;
            if (b < used_u || b > blim) return;
            if (!seen.insert({n, b}).second) return;
            out.push_back(mk(O_RS, t, n, b, rich ? 1 : 0));
        };
        if (!rich)
        {
            add(cap - 1, bu);
            add(cap, bu);
            add(cap + 1, bu);
            add(cap + 1, bu + 1);
            add(cap + 2, bu + 1);
            add(cap + 1, used_u);  // more elements, but only the payload already stored: the block may not have to grow
        }
        else
        {
            for (int n : {0, cap - 1, cap, cap + 1, cap + 2})
                for (int b : {used_u, used_u + 1, bu, bu + 1, bu + 2}) add(n, b);
        }
#else
        (void)t;
        (void)out;
        (void)rich;
#endif
    }

    std::vector<Op> initial_ops() const
    {
        std::vector<Op> out;
        std::vector<std::vector<int>> fixed_sets;
        // all fixed-size vectors over the choices
        std::vector<int> cur(LS::NF, 0);
        std::vector<std::size_t> idx(LS::NF, 0);
        for (;;)
        {
            std::vector<int> f(LS::NF);
            for (std::size_t i = 0; i < LS::NF; ++i) f[i] = prm.fixed_choices[idx[i]];
            fixed_sets.push_back(f);
            std::size_t k = 0;
            for (; k < LS::NF; ++k)
            {
                if (idx[k] + 1 < prm.fixed_choices.size())
                {
                    ++idx[k];
                    break;
                }
                idx[k] = 0;
            }
            if (k == LS::NF) break;
        }
        const bool small = prm.mode == "pair" || prm.mode == "elem" || prm.mode == "proxy";
        for (auto& f : fixed_sets)
        {
            for (int n = 0; n <= prm.nmax; ++n)
            {
                if (small && n != 0 && n != prm.nmax) continue;
                if (prm.wide && n > 1 && n < prm.nmax - 1) continue;
                for (int b : {0, prm.bmax})
                {
                    if (LS::NV == 0 && b != 0) continue;
                    if (small && prm.mode != "pair" && LS::NV != 0 && b == 0 && n != 0) continue;
                    out.push_back(mk(O_NEW, 0, n, b, LS::NF > 0 ? f[0] : 0, LS::NF > 1 ? f[1] : 0, 0));
                }
            }
        }
        out.push_back(mk(O_DEF, 0));
        return out;
    }

    // the alphabet of the mode, plus the environment's move: fail(k) arms the k-th allocation of the next operation,
    // which then has to be one that promises to leave everything unchanged when it fails
    std::vector<Op> enabled() const
    {
        std::vector<Op> out = enabled_base();
        if (prm.fault_ops <= 0) return out;
        auto strong = [](const Op& o)
        { return o.k == O_RS || o.k == O_CC || o.k == O_NEW || o.k == O_XCC || (o.k == O_XR && o.a[3] != 2); };
        if (pending_fail)
        {
            std::vector<Op> f;
            for (auto& o : out)
                if (strong(o)) f.push_back(o);
            return f;
        }
        bool any = false;
        for (auto& o : out) any = any || strong(o);
        if (any)
            for (int k = 1; k <= prm.fault_ops; ++k) out.push_back(mk(O_FAIL, k));
        return out;
    }

    std::vector<Op> enabled_base() const
    {
        std::vector<Op> out;
        const std::string& mode = prm.mode;
        if (mode == "hist" || mode == "c10" || mode == "c18")
        {
            if (fill_phase)
            {
                // only emplace_back (every fitting count vector) and one more rich reserve directly after the first
                std::vector<Op> all;
                vec_mutators(0, all, false);
                for (auto& o : all)
                    if (o.k == O_EB) out.push_back(o);
                if (last.k == O_RS && last.a[3] == 1)
                {
                    std::vector<Op> rs;
                    reserve_ops(0, rs, true);
                    for (auto& o : rs)
                    {
                        o.a[3] = 2;  // second rich reserve: no third one
                        out.push_back(o);
                    }
                }
                return out;
            }
            vec_mutators(0, out, false);
            reserve_ops(0, out, false);
            if (mode == "c10") reserve_ops(0, out, true);
            if (mode == "c18" && m[0].present && !m[0].moved && m[0].el.empty())
            {
#if HAVE_COPY
                if (COPYABLE)
                {
                    out.push_back(mk(O_TCPY, 0));
                    out.push_back(mk(O_TCPA, 0, 0));
                    out.push_back(mk(O_TCPA, 0, 1));
                }
#endif
#if HAVE_SWAP
                out.push_back(mk(O_TSWP, 0, 0));
                if (LS::NF > 0) out.push_back(mk(O_TSWP, 0, 1));
#endif
#if HAVE_CMP
                out.push_back(mk(O_TCMP, 0));
#endif
            }
        }
        else if (mode == "pair")
        {
            for (int t = 0; t < 2; ++t)
            {
                if (m[t].present && !m[t].moved)
                {
                    vec_mutators(t, out, true);
                    reserve_ops(t, out, false);
                }
                if (m[t].present && m[t].moved) out.push_back(mk(O_CL, t));
                if (m[t].present && (t == 1 || m[1].present)) out.push_back(mk(O_DES, t));
            }
            if (!m[1].present && m[0].present)
            {
                // fresh second vector: capacity 0 / nmax, alternative fixed sizes, arena per run parameter
                std::vector<int> f0(2, 0), f1(2, 0);
                for (std::size_t i = 0; i < LS::NF && i < 2; ++i)
                {
                    f0[i] = static_cast<int>(m[0].fixed[i]);
                    f1[i] = m[0].fixed[i] == 1 ? 2 : 1;
                }
                for (int n : {0, prm.nmax})
                {
                    const int b = LS::NV ? prm.bmax : 0;
                    out.push_back(mk(O_NEW, 1, n, b, f0[0], f0[1], prm.arena1));
                    if (LS::NF > 0) out.push_back(mk(O_NEW, 1, n, b, f1[0], f1[1], prm.arena1));
                }
            }
            for (int s = 0; s < 2; ++s)
            {
                const int d = 1 - s;
                if (!m[s].present) continue;
#if HAVE_COPY
                if (COPYABLE && !m[s].moved)
                {
                    if (!m[d].present) out.push_back(mk(O_CC, s, d));
                    if (m[d].present) out.push_back(mk(O_CA, s, d));
                    out.push_back(mk(O_CA, s, s));
                }
#endif
#if HAVE_MOVE
                if (!m[s].moved)
                {
                    if (!m[d].present) out.push_back(mk(O_MC, s, d));
                    if (m[d].present) out.push_back(mk(O_MA, s, d));
                    out.push_back(mk(O_MA, s, s));
                }
#endif
            }
#if HAVE_SWAP
            if (m[0].present && m[1].present && (TR::sw || TR::ae || m[0].arena == m[1].arena)) out.push_back(mk(O_SW, 0, 1));
            for (int t = 0; t < 2; ++t)
                if (m[t].present && !m[t].moved) out.push_back(mk(O_SW, t, t));
#endif
        }
        else if (mode == "proxy")
        {
            const VM& mm = m[0];
            if (!mm.present) return out;
            const int n = static_cast<int>(mm.el.size());
            // building blocks: fill the vector with equally shaped elements (count 1 for every varying parameter)
            if (mm.el.size() < mm.cap)
            {
                Op o = mk(O_EB, 0);
                for (std::size_t i = 0; i < LS::NV; ++i) o.a[1 + i] = 1;
                if (LS::payload_bytes(counts_of(o)) <= mm.budget - mm.used()) out.push_back(o);
            }
            for (int i = 0; i < n; ++i)
                for (int p = 0; p < 5; ++p)
                {
                    if (p == 1 && i != 0 && i != n - 1) continue;
                    out.push_back(mk(O_WP, 0, i, p));
                }
#if HAVE_REF_ASSIGN
            for (int i = 0; i < n; ++i)
                for (int j = 0; j < n; ++j)
                {
                    if (!same_shape(mm.el[static_cast<std::size_t>(i)], mm.el[static_cast<std::size_t>(j)])) continue;
                    if (COPYABLE)
                    {
                        out.push_back(mk(O_RAR, 0, i, j, 0));
                        out.push_back(mk(O_RAR, 0, i, j, 1));
                    }
                    // (a moved-from std::string is valid but unspecified: no model for it, the move forms are left out)
                    if (i != j && !LS::HAS_ADDRESS_BYTES) out.push_back(mk(O_RAR, 0, i, j, 2));
                }
#endif
#if HAVE_REF_SWAP
            for (int i = 0; i < n; ++i)
                for (int j = 0; j < n; ++j)
                {
                    if (!same_shape(mm.el[static_cast<std::size_t>(i)], mm.el[static_cast<std::size_t>(j)])) continue;
                    out.push_back(mk(O_RSW, 0, i, j, 0));
                    out.push_back(mk(O_RSW, 0, i, j, 1));
                }
            bool uniform = true;
            for (int i = 1; i < n; ++i) uniform = uniform && same_shape(mm.el[0], mm.el[static_cast<std::size_t>(i)]);
            if (uniform)
            {
                for (int f = 0; f <= n; ++f)
                    for (int l = f; l <= n; ++l)
                    {
                        out.push_back(mk(O_REV, 0, f, l));
                        for (int mid = f; mid <= l; ++mid) out.push_back(mk(O_ROT, 0, f, mid, l));
                        for (int f2 = 0; f2 + (l - f) <= n; ++f2)
                            if (f2 >= l || f2 + (l - f) <= f) out.push_back(mk(O_SWR, 0, f, l, f2));
                    }
            }
#endif
        }
        else if (mode == "elem")
        {
#if HAVE_ELEM
            const VM& mm = m[0];
            if (!mm.present) return out;
            const int n = static_cast<int>(mm.el.size());
            // set-up: elements of different varying sizes 1, 2, 3 (so that sizes on both sides of every block-size
            // boundary of the element storage occur: smaller into larger, larger into smaller, equal unit counts)
            if (mm.el.size() < mm.cap)
            {
                Op o = mk(O_EB, 0);
                const int c = n + 1;
                for (std::size_t i = 0; i < LS::NV; ++i) o.a[1 + i] = static_cast<int8_t>(c);
                if (LS::payload_bytes(counts_of(o)) <= mm.budget - mm.used()) out.push_back(o);
            }
            for (int e = 0; e < 3; ++e)
            {
                if (!xm[e].present)
                {
                    if (e > 0 && !xm[e - 1].present) continue;  // fill slots in order
                    for (int i = 0; i < n; ++i)
                        for (int form = 0; form < 4; ++form)
                        {
                            if (form != 2 && !COPYABLE) continue;
                            if (form == 2 && LS::HAS_ADDRESS_BYTES) continue;
                            out.push_back(mk(O_XR, e, 0, i, form, -1));
                            out.push_back(mk(O_XR, e, 0, i, form, prm.arena1));
                        }
                    for (int f = 0; f < 3; ++f)
                    {
                        if (!xm[f].present || xm[f].moved) continue;
#if HAVE_ELEM_COPY
                        if (COPYABLE)
                        {
                            out.push_back(mk(O_XCC, f, e, -1));
                            out.push_back(mk(O_XCC, f, e, prm.arena1));
                            out.push_back(mk(O_XCC, f, e, 0));
                        }
#endif
#if HAVE_ELEM_MOVE
                        out.push_back(mk(O_XMC, f, e, -1));
                        out.push_back(mk(O_XMC, f, e, prm.arena1));
                        out.push_back(mk(O_XMC, f, e, 0));
#endif
                    }
                    continue;
                }
                out.push_back(mk(O_XDES, e));
                if (xm[e].moved)
                {
                    // a moved-from element can be assigned to
                    for (int f = 0; f < 3; ++f)
                    {
                        if (f == e || !xm[f].present || xm[f].moved) continue;
#if HAVE_ELEM_COPY
                        if (COPYABLE) out.push_back(mk(O_XCA, f, e));
#endif
#if HAVE_ELEM_MOVE
                        out.push_back(mk(O_XMA, f, e));
#endif
                    }
                    continue;
                }
                out.push_back(mk(O_XMUT, e));
                for (int f = 0; f < 3; ++f)
                {
                    if (!xm[f].present || xm[f].moved) continue;
#if HAVE_ELEM_COPY
                    if (COPYABLE) out.push_back(mk(O_XCA, f, e));
#endif
#if HAVE_ELEM_MOVE
                    if (f != e) out.push_back(mk(O_XMA, f, e));
#endif
#if HAVE_ELEM_SWAP
                    if (f >= e && (TR::sw || TR::ae || xm[e].arena == xm[f].arena)) out.push_back(mk(O_XSW, e, f));
#endif
                }
                for (int i = 0; i < n; ++i)
                {
                    if (!same_shape(mm.el[static_cast<std::size_t>(i)], xm[e].e)) continue;
#if HAVE_ELEM_ASSIGN_REF
                    for (int form = 0; form < 4; ++form)
                    {
                        if (form != 2 && !COPYABLE) continue;
                        if (form == 2 && LS::HAS_ADDRESS_BYTES) continue;
                        out.push_back(mk(O_XAR, e, 0, i, form));
                    }
#endif
#if HAVE_REF_ASSIGN_ELEM
                    if (COPYABLE) out.push_back(mk(O_RAX, 0, i, e, 0));
                    if (!LS::HAS_ADDRESS_BYTES) out.push_back(mk(O_RAX, 0, i, e, 1));
#endif
                }
            }
            for (int i = 0; i < n; ++i) out.push_back(mk(O_VMUT, 0, i));
            if (n > 0) out.push_back(mk(O_PB, 0));
#endif
        }
        return out;
    }
};
}  // namespace hx
