// Layout engine (C02-C05, packing/bounds/alignment/order clauses): for every list of a generated family,
// every fixed-size vector, every N and EVERY distribution of varying counts over the N elements, construct a
// vector with exactly the needed payload budget, fill it and check every address. The lists of one
// translation unit come from the generated file named by -DLAYOUT_INC.
#include "core.hpp"

#include <sys/wait.h>
#include <unistd.h>

#include <chrono>
#include <cstdio>
#include <fstream>
#include <map>
#include <sstream>

using namespace hx;

void* operator new(std::size_t n)
{
    if (env::L().in_lib && env::L().harness_depth == 0) ++env::L().foreign_new;
    void* p = std::malloc(n ? n : 1);
    if (!p) throw std::bad_alloc();
    return p;
}
void operator delete(void* p) noexcept { std::free(p); }
void operator delete(void* p, std::size_t) noexcept { std::free(p); }

static unsigned g_asan_reports = 0;
static void asan_cb(const char* text)
{
    env::HarnessScope hs;
    ++g_asan_reports;
    std::string cls = "unknown", access;
    if (const char* p = std::strstr(text, "AddressSanitizer: "))
    {
        p += 18;
        const char* e = p;
        while (*e && *e != ' ' && *e != '\n' && *e != ':') ++e;
        cls.assign(p, e);
    }
    if (std::strstr(text, "WRITE of size"))
        access = ":WRITE";
    else if (std::strstr(text, "READ of size"))
        access = ":READ";
    env::report("C02", "asan", cls + access, "AddressSanitizer: %s%s", cls.c_str(), access.c_str());
}

struct Found
{
    std::string props, monitor, discr, msg, sample;
    long count = 0;
};

struct Totals
{
    long cases = 0, vectors = 0, elements = 0, lists = 0;
    std::map<std::string, Found> found;  // key: list|props|monitor|discr
    std::vector<std::string> samples;
    std::map<std::string, long> distinct_shapes;
};

static int g_fmax = 3, g_nmax = 3, g_cmax = 3, g_cells = 8;

template <class LS>
struct Run
{
    using Alloc = Ledger<std::byte, Tr<false, false, false, true, false>>;
    using Vec = typename LS::template Vec<cntgs::Options<cntgs::Allocator<Alloc>>>;
    static constexpr std::size_t N = LS::N;

    static Vec make(std::size_t n, std::size_t bbytes, const std::vector<std::size_t>& fixed)
    {
        std::array<std::size_t, LS::NF> fs{};
        for (std::size_t i = 0; i < LS::NF; ++i) fs[i] = fixed[i];
        if constexpr (LS::NF > 0 && LS::NV > 0)
            return Vec(n, bbytes, fs);
        else if constexpr (LS::NF > 0)
            return Vec(n, fs);
        else if constexpr (LS::NV > 0)
            return Vec(n, bbytes);
        else
            return Vec(n);
    }

    // one case: returns a short description for samples
    static void one(const std::vector<std::size_t>& fixed, const std::vector<std::vector<std::size_t>>& counts)
    {
        const std::size_t n = counts.size();
        std::size_t budget = 0;
        std::vector<Elem> model;
        for (std::size_t i = 0; i < n; ++i)
        {
            model.push_back(LS::make_elem(static_cast<int>(i), counts[i], fixed));
            budget += LS::payload_bytes(counts[i]);
        }
        L().in_lib = true;
        Vec v = make(n, budget, fixed);
        L().in_lib = false;
        for (auto& e : model) LS::emplace(v, e);
        const Vec& cv = v;
        if (cv.size() != n) report("C01", "values", "size", "size() == %zu after %zu emplace_back", cv.size(), n);
        const auto db = reinterpret_cast<uintptr_t>(cv.data_begin());
        const auto de = reinterpret_cast<uintptr_t>(cv.data_end());
        const Block* blk = find_block(db, true);
        if (!blk)
        {
            report("C02", "bounds", "data_begin-outside", "data_begin() is not inside a block of the allocator");
            return;
        }
        if (blk->bytes > cv.memory_consumption())
            report("C05", "footprint", "memory_consumption<block", "memory_consumption() %zu < block %zu", cv.memory_consumption(), blk->bytes);
        if (n > 0 && (de < db || de - db > cv.memory_consumption()))
            report("C02", "bounds", "data_end-data_begin>memory_consumption", "data_end()-data_begin() == %ld, memory_consumption() == %zu",
                   static_cast<long>(de - db), cv.memory_consumption());
        uintptr_t expect_start = db;
        auto it = v.begin();
        for (std::size_t i = 0; i < std::min(n, cv.size()); ++i, ++it)
        {
            auto r = v[i];
            const Elem got = LS::read(cv[i]);
            if (got != model[i])
                report("C01", "values", "operator[]", "element %zu reads %s, stored %s", i, to_string(got).c_str(), to_string(model[i]).c_str());
            auto ex = LS::extents(r);
            const auto rb = reinterpret_cast<uintptr_t>(r.data_begin());
            const auto re = reinterpret_cast<uintptr_t>(r.data_end());
            if (reinterpret_cast<uintptr_t>(it.data()) != rb) report("C04", "layout", "iterator.data", "iterator.data() != reference.data_begin()");
            for (std::size_t k = 0; k < N; ++k)
            {
                const std::size_t want = LS::kinds[k] == P ? 1 : model[i].f[k].size();
                if (ex[k].count != want) report("C04", "layout", "count", "field %zu has %zu objects, expected %zu", k, ex[k].count, want);
                if (ex[k].addr < blk->p || ex[k].addr + ex[k].bytes > blk->p + blk->bytes)
                    report("C02", "bounds", "field-outside-block", "element %zu field %zu lies outside the block (block %zu bytes)", i, k, blk->bytes);
                if (LS::has_align[k] && ex[k].addr % LS::aligns[k] != 0)
                    report("C03", "alignment", "misaligned", "element %zu field %zu (AlignAs %zu) at address = %zu (mod %zu)", i, k,
                           LS::aligns[k], static_cast<std::size_t>(ex[k].addr % LS::aligns[k]), LS::aligns[k]);
            }
            if (rb > ex[0].addr) report("C04", "layout", "begin", "data_begin() lies behind the first field");
            for (std::size_t k = 0; k + 1 < N; ++k)
                if (ex[k].addr + ex[k].bytes > ex[k + 1].addr) report("C04", "layout", "order", "field %zu overlaps or follows field %zu", k, k + 1);
            if (ex[N - 1].addr + ex[N - 1].bytes != re) report("C04", "layout", "end", "data_end() is not the end of the last field");
            if (rb < expect_start && i > 0) report("C04", "layout", "element-order", "element %zu overlaps element %zu", i, i - 1);
            if (i == 0 && rb < db) report("C04", "layout", "first", "first element starts in front of data_begin()");
            if (re > de) report("C04", "layout", "data_end", "element %zu ends behind data_end()", i);
            // C05 packing
            if (rb != expect_start)
                report("C05", "packing", "element-start", "element %zu starts %ld bytes after the lowest suitably aligned address", i,
                       static_cast<long>(rb - expect_start));
            uintptr_t cur = rb;
            for (std::size_t k = 0; k < N; ++k)
            {
                const uintptr_t want = (cur + LS::aligns[k] - 1) / LS::aligns[k] * LS::aligns[k];
                if (ex[k].addr != want)
                {
                    report("C05", "packing", "field", "element %zu field %zu starts %ld bytes after the lowest suitably aligned address", i, k,
                           static_cast<long>(ex[k].addr - want));
                    break;
                }
                cur = ex[k].addr + ex[k].bytes;
            }
            expect_start = (re + LS::AMAX - 1) / LS::AMAX * LS::AMAX;
        }
        if (LS::NV == 0 && n > 0 && cv.size() == n)
        {
            const std::size_t used = de - db;
            const std::size_t rounded = (used + LS::AMAX - 1) / LS::AMAX * LS::AMAX;
            if (rounded != cv.memory_consumption())
                report("C05", "footprint", "full-vector", "full vector uses %zu bytes (rounded %zu), memory_consumption() == %zu", used, rounded,
                       cv.memory_consumption());
        }
        check_canaries();
    }

    static std::string describe(const std::vector<std::size_t>& fixed, const std::vector<std::vector<std::size_t>>& counts)
    {
        std::ostringstream s;
        s << "fixed=[";
        for (auto f : fixed) s << f << ",";
        s << "] counts=[";
        for (auto& c : counts)
        {
            s << "(";
            for (auto x : c) s << x << ",";
            s << ")";
        }
        s << "]";
        return s.str();
    }

    static void all(const char* name, Totals& tot)
    {
        ++tot.lists;
        std::vector<std::size_t> fixed(LS::NF, 0);
        for (;;)
        {
            for (int base = 0; base < 2; ++base)
                for (int n = 0; n <= g_nmax; ++n)
                {
                    // bound the number of count cells (n x NV <= --cells): the distributions are enumerated completely below it
                    if (LS::NV > 0 && static_cast<std::size_t>(n) * LS::NV > static_cast<std::size_t>(g_cells) && n > 1) break;
                    // all count matrices n x NV over 0..cmax
                    const std::size_t cells = static_cast<std::size_t>(n) * LS::NV;
                    std::vector<std::size_t> flat(cells, 0);
                    for (;;)
                    {
                        std::vector<std::vector<std::size_t>> counts(static_cast<std::size_t>(n), std::vector<std::size_t>(LS::NV));
                        for (std::size_t i = 0; i < cells; ++i) counts[i / LS::NV][i % LS::NV] = flat[i];
                        env::reset_ledger();
                        env::reset_registry();
                        env::viols().clear();
                        g_asan_reports = 0;
                        L().junk = JUNK_PATTERN;
                        L().base = base;
                        one(fixed, counts);
                        ++tot.cases;
                        tot.elements += n;
                        if (!env::viols().empty())
                        {
                            const std::string d = describe(fixed, counts) + (base ? " base=page" : " base=exact");
                            for (auto& v : env::viols())
                            {
                                const std::string key = std::string(name) + "|" + v.props + "|" + v.monitor + "|" + v.discr;
                                auto& f = tot.found[key];
                                if (f.count++ == 0) f = Found{v.props, v.monitor, v.discr, v.msg, d, 1};
                            }
                        }
                        if (tot.samples.size() < 4 && tot.cases % 997 == 5) tot.samples.push_back(std::string(name) + " " + describe(fixed, counts));
                        std::size_t k = 0;
                        for (; k < cells; ++k)
                        {
                            if (flat[k] < static_cast<std::size_t>(g_cmax))
                            {
                                ++flat[k];
                                break;
                            }
                            flat[k] = 0;
                        }
                        if (k == cells) break;
                    }
                }
            std::size_t k = 0;
            for (; k < LS::NF; ++k)
            {
                if (fixed[k] < static_cast<std::size_t>(g_fmax))
                {
                    ++fixed[k];
                    break;
                }
                fixed[k] = 0;
            }
            if (k == LS::NF) break;
        }
    }
};

#define HX_Q(x) #x
#define HX_QQ(x) HX_Q(x)
#include HX_QQ(LAYOUT_INC)

static std::string jesc(const std::string& s)
{
    std::string o;
    for (char c : s)
    {
        if (c == '"' || c == '\\') o += '\\';
        o += static_cast<unsigned char>(c) < 0x20 ? ' ' : c;
    }
    return o;
}

int main(int argc, char** argv)
{
    std::string out;
    for (int i = 1; i < argc; ++i)
    {
        std::string a = argv[i];
        if (a == "--out") out = argv[++i];
        else if (a == "--nmax") g_nmax = std::atoi(argv[++i]);
        else if (a == "--cmax") g_cmax = std::atoi(argv[++i]);
        else if (a == "--fmax") g_fmax = std::atoi(argv[++i]);
        else if (a == "--cells") g_cells = std::atoi(argv[++i]);
    }
    __asan_set_error_report_callback(asan_cb);
    const auto t0 = std::chrono::steady_clock::now();
    Totals tot;
    run_all_lists(tot);
    const double wall = std::chrono::duration<double>(std::chrono::steady_clock::now() - t0).count();
    std::ostringstream js;
    js << "{\"lists\": " << tot.lists << ", \"cases\": " << tot.cases << ", \"elements\": " << tot.elements << ", \"wall_s\": " << wall
       << ", \"nmax\": " << g_nmax << ", \"cmax\": " << g_cmax << ", \"fmax\": " << g_fmax << ", \"cells\": " << g_cells << ",\n \"samples\": [";
    for (size_t i = 0; i < tot.samples.size(); ++i) js << (i ? ", " : "") << "\"" << jesc(tot.samples[i]) << "\"";
    js << "],\n \"violations\": [";
    bool first = true;
    for (auto& kv : tot.found)
    {
        const std::string list = kv.first.substr(0, kv.first.find('|'));
        js << (first ? "\n" : ",\n") << "  {\"list\": \"" << jesc(list) << "\", \"props\": \"" << kv.second.props << "\", \"monitor\": \""
           << kv.second.monitor << "\", \"discr\": \"" << jesc(kv.second.discr) << "\", \"msg\": \"" << jesc(kv.second.msg)
           << "\", \"case\": \"" << jesc(kv.second.sample) << "\", \"count\": " << kv.second.count << "}";
        first = false;
    }
    js << "\n ]}\n";
    if (out.empty())
        std::fputs(js.str().c_str(), stdout);
    else
    {
        std::ofstream o(out);
        o << js.str();
    }
    return tot.found.empty() ? 0 : 1;
}
