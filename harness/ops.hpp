// Operation alphabet shared by engine, replay files, evidence samples and known-finding discriminators.
#pragma once
#include <cstdint>
#include <cstdlib>
#include <string>
#include <vector>

namespace hx
{
enum OpKind : uint8_t
{
    // vector life cycle / mutators (a[0] = slot)
    O_NEW,  // new(t,n,bunits,f0,f1,arena)
    O_DEF,  // def(t)
    O_EB,   // eb(t,c0,c1,c2)
    O_PB,   // pb(t)
    O_ER1,  // er(t,i)
    O_ER2,  // err(t,i,j)
    O_CL,   // cl(t)
    O_RS,   // rs(t,n,bunits,rich)
    O_CC,   // cc(s,t)  copy construct t from s
    O_CA,   // ca(s,t)
    O_MC,   // mc(s,t)
    O_MA,   // ma(s,t)
    O_SW,   // sw(a,b)
    O_DES,  // des(t)
    // composite single-vector operations that use a temporary second vector (C18/C09 style checks in hist mode)
    O_TCPY,  // tcpy(t): copy construct a temporary from t, compare, destroy
    O_TCPA,  // tcpa(t,k): copy assign t into a temporary fresh vector of capacity k, compare, destroy
    O_TSWP,  // tswp(t,alt): swap with a fresh empty temporary (same arena; alt=1: with different fixed sizes) and back
    O_TCMP,  // tcmp(t): == and < against a temporary copy and against a fresh empty vector
    // references / iterators (C11)
    O_RAR,   // rar(t,i,j,form): ref_i = ref_j ; form 0 lvalue ref, 1 const_reference, 2 rvalue mutable ref (move)
    O_RSW,   // rsw(t,i,j,form): form 0 swap(ref_i, ref_j), 1 std::iter_swap(it_i, it_j)
    O_ROT,   // rot(t,f,m,l)
    O_REV,   // rev(t,f,l)
    O_SWR,   // swr(t,f,l,f2)
    O_WP,    // wp(t,i,path): write new values to element i through access path `path`
    // elements (C12) (a[0] = element slot)
    O_XR,    // xr(e,t,i,form,arena): construct element from v[t][i]; form 0 const_reference, 1 lvalue reference, 2 rvalue
             // reference (moves), 3 rvalue const_reference; arena -1 = no allocator argument
    O_XCC,   // xcc(f,e,arena): copy construct e from f; arena -1 = plain copy constructor
    O_XMC,   // xmc(f,e,arena): move construct e from f
    O_XCA,   // xca(f,e)
    O_XMA,   // xma(f,e)
    O_XSW,   // xsw(e,f)
    O_XAR,   // xar(e,t,i,form): element = reference (form as in xr)
    O_RAX,   // rax(t,i,e,form): reference = element; form 0 const element&, 1 rvalue element (moves)
    O_XMUT,  // xmut(e)
    O_VMUT,  // vmut(t,i)
    O_XDES,  // xdes(e)
    // environment (C17): the k-th allocation of the NEXT operation fails (only in front of operations that promise to
    // leave everything unchanged on failure: reserve, copy construction, construction); exploration goes on afterwards
    O_FAIL,  // fail(k)
    // macro operation of the "wide" runs: emplace_back until the vector is full (or the payload budget is used up), the
    // span lengths cycling through 0..cmax starting at `phase`
    O_FILL,  // fill(t,phase)
    // emplace_back whose arguments alias the vector itself: the fields of element i (references and spans into the block)
    O_EBS,  // ebs(t,i)
    O_KINDS
};

inline const char* const OP_NAMES[O_KINDS] = {"new", "def",  "eb",   "pb",   "er",   "err", "cl",  "rs",  "cc",  "ca",   "mc",   "ma",
                                              "sw",  "des",  "tcpy", "tcpa", "tswp", "tcmp", "rar", "rsw", "rot", "rev",  "swr",  "wp",
                                              "xr",  "xcc",  "xmc",  "xca",  "xma",  "xsw", "xar", "rax", "xmut", "vmut", "xdes", "fail", "fill", "ebs"};
inline const int OP_ARITY[O_KINDS] = {6, 1, 4, 1, 2, 3, 1, 4, 2, 2, 2, 2, 2, 1, 1, 2, 2, 1, 4, 4, 4, 3, 4, 3, 5, 3, 3, 2, 2, 2, 4, 4, 1, 2, 1, 1, 2, 2};

struct Op
{
    uint8_t k = 0;
    int8_t a[6] = {0, 0, 0, 0, 0, 0};
};

inline Op mk(OpKind k, int a0 = 0, int a1 = 0, int a2 = 0, int a3 = 0, int a4 = 0, int a5 = 0)
{
    Op o;
    o.k = k;
    o.a[0] = static_cast<int8_t>(a0);
    o.a[1] = static_cast<int8_t>(a1);
    o.a[2] = static_cast<int8_t>(a2);
    o.a[3] = static_cast<int8_t>(a3);
    o.a[4] = static_cast<int8_t>(a4);
    o.a[5] = static_cast<int8_t>(a5);
    return o;
}

inline std::string op_str(const Op& o)
{
    std::string s = OP_NAMES[o.k];
    s += "(";
    for (int i = 0; i < OP_ARITY[o.k]; ++i)
    {
        if (i) s += ",";
        s += std::to_string(static_cast<int>(o.a[i]));
    }
    return s + ")";
}

inline bool parse_op(const std::string& s, Op& out)
{
    const auto lp = s.find('(');
    if (lp == std::string::npos || s.back() != ')') return false;
    const std::string name = s.substr(0, lp);
    int k = -1;
    for (int i = 0; i < O_KINDS; ++i)
        if (name == OP_NAMES[i]) k = i;
    if (k < 0) return false;
    out = Op{};
    out.k = static_cast<uint8_t>(k);
    std::string args = s.substr(lp + 1, s.size() - lp - 2);
    size_t pos = 0;
    int idx = 0;
    while (pos < args.size() && idx < 6)
    {
        size_t comma = args.find(',', pos);
        if (comma == std::string::npos) comma = args.size();
        out.a[idx++] = static_cast<int8_t>(std::atoi(args.substr(pos, comma - pos).c_str()));
        pos = comma + 1;
    }
    return true;
}

using History = std::vector<Op>;

inline std::string history_str(const History& h)
{
    std::string s;
    for (size_t i = 0; i < h.size(); ++i)
    {
        if (i) s += ";";
        s += op_str(h[i]);
    }
    return s;
}

inline bool parse_history(const std::string& s, History& out)
{
    out.clear();
    size_t pos = 0;
    while (pos < s.size())
    {
        size_t semi = s.find(';', pos);
        if (semi == std::string::npos) semi = s.size();
        Op o;
        if (!parse_op(s.substr(pos, semi - pos), o)) return false;
        out.push_back(o);
        pos = semi + 1;
    }
    return true;
}
}  // namespace hx
