// Configuration catalogue (DESIGN.md section 2.3): parameter lists and allocator kinds, selected with
// -DCFG_LIST=<name> -DCFG_ALLOC=<name>.
#pragma once
#include "core.hpp"

namespace hx
{
// all plain
using L_P1 = List<D<P, u32>, D<P, f32>>;
using L_P2 = List<D<P, u8>, D<P, u32, 8>>;
using L_P3 = List<D<P, Trk>, D<P, u8>>;
using L_P4 = List<D<P, u8>, D<P, Trk>, D<P, u8>, D<P, u8>>;
// fixed only
using L_F1 = List<D<F, u16>, D<P, u32>>;
using L_F2 = List<D<P, u8>, D<F, f32, 16>, D<F, u8>>;
using L_F3 = List<D<F, Trk>, D<P, u8>, D<P, Trk>>;
using L_F4 = List<D<F, TrkM>, D<P, TrkM>>;
using L_F5 = List<D<F, u8>, D<P, Trk>, D<F, u8>>;
// varying
using L_V1 = List<D<P, sz, 8>, D<V, f32>>;
using L_V2 = List<D<P, u8>, D<V, u8>, D<P, u8>>;
using L_V3 = List<D<P, sz, 8>, D<V, Trk>, D<P, Trk>>;
using L_V4 = List<D<P, u8>, D<V, Trk>>;
using L_V5 = List<D<P, u32>, D<P, sz, 8>, D<V, f32, 8>, D<P, sz, 8>, D<V, f32, 16>>;
using L_V6 = List<D<P, u8>, D<V, Odd3>, D<P, u16, 2>>;
using L_V7 = List<D<P, sz, 8>, D<V, Trk>, D<P, u8>>;
// an over-aligned VaryingSize parameter in the middle: padding in front of the span even when it is empty
using L_V8 = List<D<P, sz, 8>, D<V, f32, 16>, D<P, u8>>;
using L_V9 = List<D<P, u8>, D<V, Trk, 8>, D<P, u8>>;
// over-aligned FIRST parameter without VaryingSize: the element start itself has to be aligned (stride != size)
using L_P6 = List<D<P, u32, 8>, D<P, u8>>;
using L_F7 = List<D<P, u16, 8>, D<F, f32>>;
// std::string with small-string contents (self-referential objects)
using L_P7 = List<D<P, Str>, D<P, u8>>;
using L_F8 = List<D<F, Str>, D<P, u32>>;
using L_V11 = List<D<P, sz, 8>, D<V, Str>, D<P, Str>>;
// non-trivial copy constructor only (trivial move and destructor)
using L_P5 = List<D<P, Cpy>, D<P, u8>>;
using L_F6 = List<D<F, Cpy>, D<P, u32>>;
using L_V10 = List<D<P, sz, 8>, D<V, Cpy>, D<P, Cpy>>;
// no parameter is trivially copy constructible, one of them is trivially MOVE constructible
using L_P12 = List<D<P, Cpy>, D<P, Trk>>;
using L_F11 = List<D<F, Cpy>, D<P, Cpy>>;
// trivially constructible but not trivially copyable (user-provided assignment), alone and next to non-trivial types
using L_P8 = List<D<P, Asg>, D<P, Trk>>;
using L_P9 = List<D<P, Asg>, D<P, u8>>;
using L_F9 = List<D<F, Asg>, D<P, Trk>>;
using L_V12 = List<D<P, sz, 8>, D<V, Asg>, D<P, Trk>>;
// unusual but legal value types: an over-aligned 32-byte class, bool, an enum, a pointer, an empty class
using L_P10 = List<D<P, Big32, 32>, D<P, u8>>;
using L_P11 = List<D<P, bool>, D<P, Ptr>, D<P, En>, D<P, Emp>, D<P, u16>>;
using L_F10 = List<D<P, u8>, D<F, Big32, 32>, D<P, bool>>;
using L_V13 = List<D<P, sz, 8>, D<V, Big32, 32>, D<P, En>>;
// a type with an overloaded unary operator& as first and last parameter, and in spans
using L_P13 = List<D<P, Amp>, D<P, u8>, D<P, Amp>>;
using L_F12 = List<D<F, Amp>, D<P, u16>, D<P, Amp>>;
// a non-trivially-assignable field in front of an all-plain run whose later field has the larger alignment: the run
// starts at an offset that is not a multiple of it
using L_P14 = List<D<P, u8>, D<P, Str>, D<P, u8>, D<P, u32, 4>>;
using L_P15 = List<D<P, Odd3>, D<P, Asg>, D<P, u8>, D<P, u32, 4>, D<P, u16>>;
// trivially copy assignable, not trivially move assignable
using L_P16 = List<D<P, u32>, D<P, Mva>, D<P, u8>>;
using L_F13 = List<D<F, Mva>, D<P, Mva>, D<P, u16>>;
// many parameters: three VaryingSize parameters with three count types; two FixedSize and one VaryingSize parameter with
// decreasing alignments
using L_V14 = List<D<P, u8>, D<V, u16>, D<P, u32>, D<V, u8>, D<P, u16>, D<V, f32>>;
using L_M4 = List<D<F, u8>, D<P, u16>, D<P, sz, 8>, D<V, u32>, D<F, u16, 4>, D<P, u8>>;
// a byte span followed by an aligned parameter: elements with span lengths 1, 2 and 3 have the same size (padding absorbs it)
using L_V15 = List<D<P, u8>, D<V, u8>, D<P, u32, 4>>;
// a span of non-trivial objects followed by a higher-aligned parameter: span lengths 0 and 1 give the same element size
using L_V16 = List<D<P, sz, 8>, D<V, Trk>, D<P, u32, 16>>;
// mixed
using L_M1 = List<D<F, f32, 16>, D<P, u32>, D<P, sz, 8>, D<V, f32, 8>>;
using L_M2 = List<D<F, Trk>, D<P, u8>, D<V, Trk>>;
using L_M3 = List<D<F, TrkM>, D<P, u16>, D<V, TrkM>>;

// allocator kinds: CC, MC, SW, AE, SOCCC
using A_AE = Tr<false, false, false, true, false>;
using A_NP = Tr<false, false, false, false, false>;
using A_PP = Tr<true, true, true, false, false>;
using A_NPS = Tr<false, false, false, false, true>;  // non-propagating + select_on_container_copy_construction
using A_XNP = Tr<false, false, false, false, false, true>;  // non-propagating, explicit converting constructor
using A_XPP = Tr<true, true, true, false, false, true>;     // propagating, explicit converting constructor
using A_T000 = A_NP;
using A_T001 = Tr<false, false, true, false, false>;
using A_T010 = Tr<false, true, false, false, false>;
using A_T011 = Tr<false, true, true, false, false>;
using A_T100 = Tr<true, false, false, false, false>;
using A_T101 = Tr<true, false, true, false, false>;
using A_T110 = Tr<true, true, false, false, false>;
using A_T111 = A_PP;
}  // namespace hx

#define HX_CAT_(a, b) a##b
#define HX_CAT(a, b) HX_CAT_(a, b)
#define HX_STR_(a) #a
#define HX_STR(a) HX_STR_(a)
