// Compile-time half of C11 ("const references show the same values read-only"): positive cells must compile,
// negative cells (-DNEG=<n>) must NOT compile - a negative cell that compiles is a violation.
#include "lists.hpp"

using namespace hx;
using LS = HX_CAT(L_, CFG_LIST);
using Vec = typename LS::template Vec<cntgs::Options<cntgs::Allocator<Ledger<std::byte, A_AE>>>>;
using El = typename Vec::value_type;
using Ref = typename Vec::reference;
using CRef = typename Vec::const_reference;

template <std::size_t I>
constexpr bool field_type_ok()
{
    using Di = typename LS::template At<I>;
    using T = typename Di::type;
    using Got = decltype(cntgs::get<I>(std::declval<const CRef&>()));
    using GotMut = decltype(cntgs::get<I>(std::declval<const Ref&>()));
    using GotConstEl = decltype(cntgs::get<I>(std::declval<const El&>()));
    if constexpr (Di::kind == P)
        return std::is_same_v<Got, const T&> && std::is_same_v<GotMut, T&> && std::is_same_v<GotConstEl, const T&>;
    else
        return std::is_same_v<Got, cntgs::Span<const T>> && std::is_same_v<GotMut, cntgs::Span<T>> &&
               std::is_same_v<GotConstEl, cntgs::Span<const T>>;
}
template <std::size_t... I>
constexpr bool all_field_types_ok(std::index_sequence<I...>)
{
    return (field_type_ok<I>() && ...);
}

#ifndef NEG
// ---- positive cells
static_assert(all_field_types_ok(std::make_index_sequence<LS::N>{}), "get<I> on a const_reference / const element must yield const T& / Span<const T>");
static_assert(std::is_same_v<decltype(*std::declval<typename Vec::const_iterator>()), CRef>, "*const_iterator is a const_reference");
static_assert(std::is_same_v<decltype(std::declval<const Vec&>()[0]), CRef>, "const operator[] yields a const_reference");
static_assert(std::is_same_v<decltype(std::declval<const Vec&>().front()), CRef> && std::is_same_v<decltype(std::declval<const Vec&>().back()), CRef>);
static_assert(std::is_same_v<decltype(std::declval<const Vec&>().begin()), typename Vec::const_iterator>);
static_assert(std::is_convertible_v<Ref, CRef>, "reference converts to const_reference");
static_assert(std::is_convertible_v<typename Vec::iterator, typename Vec::const_iterator>, "iterator converts to const_iterator");
void positive(Vec& v)
{
    const Vec& c = v;
    CRef a{v[0]};          // mutable -> const
    CRef b = c[0];
    (void)(a == b);
    typename Vec::const_iterator ci = v.begin();
    (void)ci;
}
#else
// ---- negative cells: each of these writes through (or obtains write access from) a const access path
void negative(Vec& v, El& e)
{
    const Vec& c = v;
    const El& ce = e;
    (void)c;
    (void)ce;
#if NEG == 0
    CRef a = c[0];
    a = c[1];  // assignment through a const_reference
#elif NEG == 1
    CRef a = c[0];
    a = v[1];  // assignment of a mutable reference through a const_reference
#elif NEG == 2
    Ref r{c[0]};  // const_reference -> reference
    (void)r;
#elif NEG == 3
    Ref r = c[0];  // implicit const_reference -> reference
    (void)r;
#elif NEG == 4
    using std::swap;
    swap(c[0], c[1]);  // swap through const_references
#elif NEG == 5
    typename Vec::iterator it = c.begin();  // const_iterator -> iterator
    (void)it;
#elif NEG == 6
    typename Vec::iterator it = v.begin();
    it = c.begin();  // const_iterator assigned to iterator
#elif NEG == 7
    Ref r{ce};  // const element -> mutable reference
    (void)r;
#elif NEG == 8
    CRef a = c[0];
    a = e;  // assignment of an element through a const_reference
#elif NEG == 9
    CRef a = c[0];
    a = std::move(e);
#elif NEG == 10
    std::iter_swap(c.begin(), c.begin());  // iter_swap through const_iterators
#elif NEG == 11
    CRef a = c[0];
    CRef b = c[1];
    a = std::move(b);
#endif
}
#endif
