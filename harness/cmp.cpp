// Comparison engine (C13, C14): exhaustive operand enumeration over small value domains.
// Element level: every pair (and for the order axioms every triple) of elements x operand kinds
// (reference, const_reference, value_type) x memory environments. Vector level: every pair/triple of
// vectors over sequences of length <= 2 of 4 representative elements x spare capacity x arena x allocator
// type x fresh/previously used memory. One binary per list: -DCFG_LIST=K1
#include "core.hpp"

#include <chrono>
#include <cstdio>
#include <fstream>
#include <functional>
#include <map>
#include <sstream>

using namespace hx;

namespace hx
{
using L_K1 = List<D<P, u8>, D<P, u8>>;
using L_K2 = List<D<P, u8>, D<P, u8, 4>>;
using L_K3 = List<D<P, u16>, D<P, u8>>;
using L_K4 = List<D<P, f32>, D<P, u8>>;
using L_K5 = List<D<P, W8>, D<P, W8>>;
using L_K6 = List<D<F, u8>, D<P, u8>>;
using L_K7 = List<D<P, u8>, D<V, u8>>;
using L_K8 = List<D<P, sz, 8>, D<V, u8>>;
using L_K9 = List<D<F, Trk>, D<P, Trk>>;
using L_K10 = List<D<P, u8>, D<V, W8>, D<P, u8>>;
using L_K11 = List<D<F, u16, 4>, D<P, u8>>;
using L_K12 = List<D<P, u8>, D<P, Trk>, D<P, u8>, D<P, u8>>;
using L_K13 = List<D<P, sz, 8>, D<V, u8, 4>, D<P, u8>>;
// padding between elements only (no padding between fields, the over-aligned parameter is not the first one)
using L_K14 = List<D<P, u32>, D<P, u32, 4>, D<P, u8>>;
using L_K15 = List<D<P, u16>, D<P, u8, 2>, D<P, u8>>;
// padding in front of an aligned parameter that depends on the fixed size
using L_K16 = List<D<F, u8>, D<P, u16, 2>>;
// unsigned bytes only (byte-wise <) with an over-aligned byte parameter behind a span
using L_K17 = List<D<P, u8>, D<V, u8>, D<P, u8, 4>>;
using L_K18 = List<D<P, u8>, D<P, u8, 2>, D<F, u8>>;
// FixedSize parameters only, byte-wise comparable and padding-free: the whole block is compared at once
using L_K19 = List<D<F, u8>>;
using L_K20 = List<D<F, u8>, D<F, u8>>;
using L_K21 = List<D<F, u32>, D<P, u32>>;
// a FixedSize parameter enclosed by plain ones, all byte-wise comparable, no padding: one run from field 0 to field 2
using L_K22 = List<D<P, u8>, D<F, u8>, D<P, u8>>;
using L_K23 = List<D<P, u32>, D<F, u32>, D<P, u32>>;
// a FixedSize span and a VaryingSize span (with its count) in one byte-wise run
using L_K24 = List<D<F, u8>, D<P, u8>, D<V, u8>>;
// signed and plain char: byte-sized, but not ordered the way memcmp orders them
using L_K25 = List<D<P, i8>, D<P, i8>>;
using L_K26 = List<D<F, i8>, D<P, u8>>;
using L_K27 = List<D<F, char>, D<P, char>>;
}  // namespace hx

#define HX_CAT_(a, b) a##b
#define HX_CAT(a, b) HX_CAT_(a, b)
#define HX_STR_(a) #a
#define HX_STR(a) HX_STR_(a)
using LS = hx::HX_CAT(L_, CFG_LIST);

// fixed-size codes: below 10 every FixedSize parameter has that size; 12 = sizes 1,2,1,2,... and 21 = 2,1,2,1,...
// over the FixedSize parameters in order (vectors whose blocks have the same length but different field sizes)
static std::size_t fsz(std::size_t code, std::size_t j)
{
    if (code < 10) return code;
    const std::size_t even = code / 10, odd = code % 10;
    return j % 2 == 0 ? even : odd;
}
static std::size_t findex(std::size_t k)
{
    std::size_t j = 0;
    for (std::size_t i = 0; i < k; ++i)
        if (LS::kinds[i] == F) ++j;
    return j;
}

void* operator new(std::size_t n)
{
    void* p = std::malloc(n ? n : 1);
    if (!p) throw std::bad_alloc();
    return p;
}
void operator delete(void* p) noexcept { std::free(p); }
void operator delete(void* p, std::size_t) noexcept { std::free(p); }

static void asan_cb(const char* text)
{
    env::HarnessScope hs;
    std::string cls = "unknown";
    if (const char* p = std::strstr(text, "AddressSanitizer: "))
    {
        p += 18;
        const char* e = p;
        while (*e && *e != ' ' && *e != '\n' && *e != ':') ++e;
        cls.assign(p, e);
    }
    env::report("C13,C14", "asan", cls, "AddressSanitizer: %s during a comparison", cls.c_str());
}

// value domain: index 0..2 -> value; equality/order of the model are those of the value type itself
static const int DOMV[3] = {0, 1, 200};
static bool dom_is_float(std::size_t k);
static bool field_eq(std::size_t k, int a, int b)
{
    if (dom_is_float(k))
    {
        const float fa[3] = {0.0f, -0.0f, 1.0f};
        return fa[a] == fa[b];
    }
    return a == b;
}

template <class T>
static T dom_make(int idx)
{
    if constexpr (std::is_same_v<T, f32>)
    {
        const float fa[3] = {0.0f, -0.0f, 1.0f};
        return fa[idx];
    }
    else
        return VT<T>::make(DOMV[idx]);
}

template <std::size_t... I>
static std::array<bool, LS::N> float_fields(std::index_sequence<I...>)
{
    return {std::is_same_v<typename LS::template At<I>::type, f32>...};
}
static bool dom_is_float(std::size_t k)
{
    static const auto ff = float_fields(std::make_index_sequence<LS::N>{});
    return ff[k];
}

// model element: domain indices per field (count fields hold the count itself)
static bool model_eq(const Elem& a, const Elem& b)
{
    for (std::size_t k = 0; k < LS::N; ++k)
    {
        if (a.f[k].size() != b.f[k].size()) return false;
        for (std::size_t p = 0; p < a.f[k].size(); ++p)
        {
            if (LS::kinds[k] == P && LS::is_count(k))
            {
                if (a.f[k][p] != b.f[k][p]) return false;
            }
            else if (!field_eq(k, a.f[k][p], b.f[k][p]))
                return false;
        }
    }
    return true;
}

template <class Options>
struct Side
{
    using Vec = typename LS::template Vec<Options>;
    using El = typename Vec::value_type;

    template <std::size_t I>
    static auto arg(const Elem& e)
    {
        using Di = typename LS::template At<I>;
        using T = typename Di::type;
        if constexpr (Di::kind == P)
        {
            if constexpr (LS::is_count(I))
                return static_cast<T>(e.f[I][0]);
            else
                return dom_make<T>(e.f[I][0]);
        }
        else
        {
            std::vector<T> r;
            r.reserve(e.f[I].size());
            for (int x : e.f[I]) r.push_back(dom_make<T>(x));
            return r;
        }
    }
    template <std::size_t... I>
    static void emplace(Vec& v, const Elem& e, std::index_sequence<I...>)
    {
        v.emplace_back(arg<I>(e)...);
    }
    static void emplace(Vec& v, const Elem& e) { emplace(v, e, std::make_index_sequence<LS::N>{}); }

    static std::size_t payload(const std::vector<Elem>& es)
    {
        std::size_t b = 0;
        for (auto& e : es) b += LS::payload_bytes(e);
        return b;
    }

    static Vec make(std::size_t n, std::size_t bbytes, std::size_t fixed, int arena)
    {
        std::array<std::size_t, LS::NF> fs{};
        for (std::size_t j = 0; j < fs.size(); ++j) fs[j] = fsz(fixed, j);
        typename Vec::allocator_type al{arena};
        if constexpr (LS::NF > 0 && LS::NV > 0)
            return Vec(n, bbytes, fs, al);
        else if constexpr (LS::NF > 0)
            return Vec(n, fs, al);
        else if constexpr (LS::NV > 0)
            return Vec(n, bbytes, al);
        else
            return Vec(n, al);
    }

    // build a vector holding `es`; dirty: the memory held other elements before
    // popped: one more element (the first filler element) is appended and removed again with pop_back() - the same
    // content, reached through a history that ends with a removal at the tail
    static Vec build(const std::vector<Elem>& es, const std::vector<Elem>& filler, std::size_t fixed, int spare, int arena, int junk,
                     bool dirty, bool popped = false)
    {
        L().junk = junk;
        const std::size_t extra = dirty ? payload(filler) : 0;
        const bool pop = popped && !filler.empty();
        std::vector<Elem> one;
        if (pop) one.push_back(filler.back());
        Vec v = make(es.size() + static_cast<std::size_t>(spare) + (dirty ? filler.size() : 0) + (pop ? 1 : 0),
                     payload(es) + extra + static_cast<std::size_t>(spare) * 4 + payload(one), fixed, arena);
        if (dirty)
        {
            for (auto& e : filler) emplace(v, e);
            v.clear();
        }
        for (auto& e : es) emplace(v, e);
        if (pop)
        {
            emplace(v, one[0]);
            v.pop_back();
        }
        return v;
    }
};

using TrA = Tr<false, false, false, false, false>;
using TrB = Tr<true, true, true, false, false>;
using SideA = Side<cntgs::Options<cntgs::Allocator<Ledger<std::byte, TrA>>>>;
using SideB = Side<cntgs::Options<cntgs::Allocator<Ledger<std::byte, TrB>>>>;

// ---------------------------------------------------------------- enumeration of elements
static std::vector<Elem> all_elements(std::size_t fixed, int maxlen)
{
    std::vector<std::vector<std::vector<int>>> opts(LS::N);  // per field: list of int lists
    for (std::size_t k = 0; k < LS::N; ++k)
    {
        if (LS::kinds[k] == P)
        {
            if (LS::is_count(k))
                opts[k] = {{-1}};  // filled from the span
            else
                opts[k] = {{0}, {1}, {2}};
        }
        else
        {
            std::vector<std::size_t> lens;
            if (LS::kinds[k] == F)
                lens = {fsz(fixed, findex(k))};
            else
                for (int l = 0; l <= maxlen; ++l) lens.push_back(static_cast<std::size_t>(l));
            for (auto len : lens)
            {
                std::vector<int> cur(len, 0);
                for (;;)
                {
                    opts[k].push_back(cur);
                    std::size_t i = 0;
                    for (; i < len; ++i)
                    {
                        if (cur[i] < 2)
                        {
                            ++cur[i];
                            break;
                        }
                        cur[i] = 0;
                    }
                    if (i == len) break;
                }
            }
        }
    }
    std::vector<Elem> out;
    std::vector<std::size_t> idx(LS::N, 0);
    for (;;)
    {
        Elem e;
        e.f.resize(LS::N);
        for (std::size_t k = 0; k < LS::N; ++k) e.f[k] = opts[k][idx[k]];
        for (std::size_t k = 0; k < LS::N; ++k)
            if (LS::kinds[k] == P && LS::is_count(k)) e.f[k] = {static_cast<int>(e.f[k + 1].size())};
        e.id = static_cast<int>(out.size());
        out.push_back(e);
        std::size_t k = 0;
        for (; k < LS::N; ++k)
        {
            if (idx[k] + 1 < opts[k].size())
            {
                ++idx[k];
                break;
            }
            idx[k] = 0;
        }
        if (k == LS::N) break;
    }
    return out;
}

// lists whose values are all unsigned bytes without AlignAs are compared byte-wise (a total lexicographic
// order); every other list compares element-wise, field by field
template <std::size_t... I>
static bool all_bytes(std::index_sequence<I...>)
{
    return (std::is_same_v<typename LS::template At<I>::type, u8> && ...);
}
static const char* compare_path()
{
    return (all_bytes(std::make_index_sequence<LS::N>{}) && !LS::HAS_ALIGN) ? "bytewise" : "elementwise";
}

struct Stats
{
    long comparisons = 0, element_pairs = 0, element_triples = 0, vector_pairs = 0, vector_triples = 0, vectors_built = 0;
    long nontrivial = 0;  // comparisons whose operands differ in exactly some field or length (not identical, not empty)
    std::vector<std::string> samples;
};
static Stats S;

struct Found
{
    std::string props, monitor, discr, msg;
    long count = 0;
};
static std::map<std::string, Found> g_found;
static void flush_viols(const std::string& context)
{
    for (auto& v : env::viols())
    {
        const std::string key = v.props + "|" + v.monitor + "|" + v.discr;
        auto& f = g_found[key];
        if (f.count++ == 0) f = Found{v.props, v.monitor, v.discr, v.msg + " [" + context + "]", 1};
    }
    env::viols().clear();
}

static std::string show(const std::vector<Elem>& es)
{
    std::string s = "[";
    for (auto& e : es) s += to_string(e);
    return s + "]";
}

// all six operators between a and b; returns bitmask eq,ne,lt,le,gt,ge
template <class A, class B>
static int six(const A& a, const B& b)
{
    S.comparisons += 6;
    int m = 0;
    if (a == b) m |= 1;
    if (a != b) m |= 2;
    if (a < b) m |= 4;
    if (a <= b) m |= 8;
    if (a > b) m |= 16;
    if (a >= b) m |= 32;
    return m;
}

static const char* KINDS[3] = {"reference", "const_reference", "value_type"};

// ---------------------------------------------------------------- element level
template <class SA, class SB>
static void element_level(const std::vector<Elem>& E, std::size_t fixed, std::vector<std::vector<int>>& lt_out, const char* envname,
                          int junk_a, int junk_b, bool dirty_b)
{
    std::vector<Elem> filler;
    for (auto it = E.rbegin(); it != E.rend(); ++it) filler.push_back(*it);
    auto va = SA::build(E, filler, fixed, 0, 0, junk_a, false);
    auto vb = SB::build(E, filler, fixed, 1, 1, junk_b, dirty_b);
    S.vectors_built += 2;
    const auto& cva = va;
    const auto& cvb = vb;
    const std::size_t n = E.size();
    std::vector<typename SA::El> ea;
    std::vector<typename SB::El> eb;
#ifndef HAVE_ELEM_COPY
#define HAVE_ELEM_COPY 1
#endif
    // value_type operands need a copyable element type (dropped by the driver if the library does not compile that)
    constexpr bool copyable = LS::ALL_COPYABLE && HAVE_ELEM_COPY;
    if constexpr (copyable)
    {
        L().junk = junk_a;
        for (std::size_t i = 0; i < n; ++i) ea.emplace_back(cva[i]);
        L().junk = junk_b;
        for (std::size_t i = 0; i < n; ++i) eb.emplace_back(cvb[i]);
    }
    lt_out.assign(n, std::vector<int>(n, -1));
    for (std::size_t i = 0; i < n; ++i)
        for (std::size_t j = 0; j < n; ++j)
        {
            ++S.element_pairs;
            const bool meq = model_eq(E[i], E[j]);
            if (!meq && i != j) ++S.nontrivial;
            int first = -1;
            std::string first_kind;
            auto check = [&](int m, const char* ka, const char* kb)
            {
                const std::string kinds = std::string(ka) + "," + kb;
                const bool eq = m & 1, ne = m & 2, lt = m & 4, le = m & 8, gt = m & 16, ge = m & 32;
                if (eq != meq)
                    report("C13", "cmp", "elem==:model", "%s == %s is %d for %s vs %s (%s)", ka, kb, eq, to_string(E[i]).c_str(),
                           to_string(E[j]).c_str(), envname);
                if (ne == eq) report("C13", "cmp", "elem!=:negation", "!= is not the negation of == (%s)", kinds.c_str());
                if (first < 0)
                {
                    first = m;
                    first_kind = kinds;
                }
                else if (m != first)
                {
                    if ((m & 3) != (first & 3))
                        report("C13", "cmp", "elem==:operand-kind", "== differs between operand kinds %s and %s for %s vs %s",
                               first_kind.c_str(), kinds.c_str(), to_string(E[i]).c_str(), to_string(E[j]).c_str());
                    if ((m & 60) != (first & 60))
                        report("C14", "cmp", "elem<:operand-kind", "relational result differs between operand kinds %s and %s for %s vs %s",
                               first_kind.c_str(), kinds.c_str(), to_string(E[i]).c_str(), to_string(E[j]).c_str());
                }
                if (lt && eq) report("C14", "cmp", "elem<:lt-and-eq", "a < b and a == b for %s vs %s", to_string(E[i]).c_str(), to_string(E[j]).c_str());
                (void)le;
                (void)gt;
                (void)ge;
            };
            // operand kinds: A side from va, B side from vb (other allocator type, other arena, other memory)
            auto ra = va[i];
            auto cra = cva[i];
            auto rb = vb[j];
            auto crb = cvb[j];
            check(six(ra, rb), KINDS[0], KINDS[0]);
            check(six(ra, crb), KINDS[0], KINDS[1]);
            check(six(cra, rb), KINDS[1], KINDS[0]);
            check(six(cra, crb), KINDS[1], KINDS[1]);
            if constexpr (copyable)
            {
                check(six(ra, eb[j]), KINDS[0], KINDS[2]);
                check(six(cra, eb[j]), KINDS[1], KINDS[2]);
                check(six(ea[i], rb), KINDS[2], KINDS[0]);
                check(six(ea[i], crb), KINDS[2], KINDS[1]);
                check(six(ea[i], ea[j]), KINDS[2], KINDS[2]);
                check(six(eb[i], eb[j]), KINDS[2], KINDS[2]);
            }
            // same vector on both sides too (no padding/junk difference)
            check(six(va[i], va[j]), "reference(same vector)", "reference(same vector)");
            check(six(cvb[i], cvb[j]), "const_reference(same vector)", "const_reference(same vector)");
            lt_out[i][j] = (first & 4) ? 1 : 0;
            // derived operators against this pair and the swapped one are checked below via the matrix
            const int mij = first;
            const int mji = six(vb[j], va[i]);
            if (((mij & 16) != 0) != ((mji & 4) != 0))
                report("C14", "cmp", "elem>:not-swapped-<", "a > b differs from b < a for %s vs %s", to_string(E[i]).c_str(), to_string(E[j]).c_str());
            if (((mij & 8) != 0) != ((mji & 4) == 0))
                report("C14", "cmp", "elem<=:not-!(b<a)", "a <= b differs from !(b < a) for %s vs %s", to_string(E[i]).c_str(), to_string(E[j]).c_str());
            if (((mij & 32) != 0) != ((mij & 4) == 0))
                report("C14", "cmp", "elem>=:not-!(a<b)", "a >= b differs from !(a < b) for %s vs %s", to_string(E[i]).c_str(), to_string(E[j]).c_str());
            if (((mij & 1) != 0) != ((mji & 1) != 0))
                report("C13", "cmp", "elem==:asymmetric", "a == b differs from b == a for %s vs %s", to_string(E[i]).c_str(), to_string(E[j]).c_str());
            if (!env::viols().empty()) flush_viols(std::string(envname) + " elements " + to_string(E[i]) + " vs " + to_string(E[j]));
        }
    // order axioms on the matrix
    for (std::size_t i = 0; i < n; ++i)
    {
        if (lt_out[i][i]) report("C14", "cmp", "elem<:reflexive", "a < a for %s", to_string(E[i]).c_str());
        for (std::size_t j = 0; j < n; ++j)
        {
            if (lt_out[i][j] && lt_out[j][i])
                report("C14", "cmp", "elem<:symmetric", "a < b and b < a for %s vs %s", to_string(E[i]).c_str(), to_string(E[j]).c_str());
            if (lt_out[i][j] && model_eq(E[i], E[j]))
                report("C14", "cmp", "elem<:lt-but-equal", "a < b although a == b for %s vs %s", to_string(E[i]).c_str(), to_string(E[j]).c_str());
            for (std::size_t k = 0; k < n; ++k)
            {
                ++S.element_triples;
                if (lt_out[i][j] && lt_out[j][k] && !lt_out[i][k])
                    report("C14", "cmp", "elem<:intransitive", "a < b, b < c but not a < c for %s %s %s", to_string(E[i]).c_str(),
                           to_string(E[j]).c_str(), to_string(E[k]).c_str());
            }
        }
    }
    flush_viols(std::string(envname) + " element order axioms");
}

// ---------------------------------------------------------------- vector level
// ---------------------------------------------------------------- element level across different fixed sizes
// every element over the value domain with fixed sizes `fa` against every element with fixed sizes `fb`: references and
// elements of two vectors (== against the model; < only for the axioms that need no model of the order)
template <class SA, class SB>
static void element_cross(std::size_t fa, std::size_t fb, int maxlen)
{
    const auto Ea = all_elements(fa, maxlen), Eb = all_elements(fb, maxlen);
    auto va = SA::build(Ea, {}, fa, 0, 0, JUNK_ZERO, false);
    auto vb = SB::build(Eb, {}, fb, 1, 1, JUNK_DISTINCT, false);
    S.vectors_built += 2;
    const auto& a = va;
    const auto& b = vb;
    constexpr bool copyable = LS::ALL_COPYABLE && HAVE_ELEM_COPY;
    for (std::size_t p = 0; p < Ea.size(); ++p)
        for (std::size_t q = 0; q < Eb.size(); ++q)
        {
            ++S.element_pairs;
            S.comparisons += 5;
            const bool mq = model_eq(Ea[p], Eb[q]);
            if (!mq) ++S.nontrivial;
            const auto ra = a[p];
            const auto rb = b[q];
            const bool req = ra == rb;
            if (req != mq)
                report("C13", "cmp", "ref==:model", "reference == is %d for %s vs %s (fixed sizes %zu vs %zu)", int(req), to_string(Ea[p]).c_str(),
                       to_string(Eb[q]).c_str(), fa, fb);
            if ((rb == ra) != req) report("C13", "cmp", "ref==:asymmetric", "a == b differs from b == a (different fixed sizes)");
            if ((ra != rb) == req) report("C13", "cmp", "ref!=:negation", "reference != is not the negation of ==");
            const bool lt = ra < rb, gt = rb < ra;
            if (lt && gt) report("C14", "cmp", "ref<:symmetric", "a < b and b < a for %s vs %s (different fixed sizes)", to_string(Ea[p]).c_str(), to_string(Eb[q]).c_str());
            if ((lt || gt) && req) report("C14", "cmp", "ref<:lt-and-eq", "a < b and a == b for %s vs %s (different fixed sizes)", to_string(Ea[p]).c_str(), to_string(Eb[q]).c_str());
            if constexpr (copyable)
            {
                S.comparisons += 8;
                const typename SA::El xa{ra};
                const typename SB::El xb{rb};
                bool xeq = (xa == rb) == mq && (ra == xb) == mq && (rb == xa) == mq && (xb == ra) == mq;
                bool xlt = (xa < rb) == lt && (ra < xb) == lt && (xb < ra) == gt && (rb < xa) == gt;
                if constexpr (std::is_same_v<typename SA::El, typename SB::El>)
                {
                    xeq = xeq && (xa == xb) == mq && (xb == xa) == mq;
                    xlt = xlt && (xa < xb) == lt && (xb < xa) == gt;
                }
                if (!xeq)
                    report("C13", "cmp", "elem==:model", "element == is wrong for %s vs %s (fixed sizes %zu vs %zu)", to_string(Ea[p]).c_str(),
                           to_string(Eb[q]).c_str(), fa, fb);
                if (!xlt) report("C14", "cmp", "elem<:operand-kind", "element < differs from reference < (different fixed sizes)");
            }
            if (!env::viols().empty()) flush_viols(std::string("elements ") + to_string(Ea[p]) + " vs " + to_string(Eb[q]) + " (different fixed sizes)");
        }
}

struct VSpec
{
    std::vector<int> seq;  // indices into the representative elements
};

template <class SA, class SB>
static void vector_level(const std::vector<Elem>& R, const std::vector<std::vector<int>>& elt_lt, std::size_t fixed_a, std::size_t fixed_b,
                         int with_order)  // 0: == only; 1: everything; 2: == and the differential oracle for < (no model of the element <)
{
    // every sequence of length <= 2 over the representatives
    std::vector<VSpec> specs;
    specs.push_back({});
    for (int a = 0; a < static_cast<int>(R.size()); ++a) specs.push_back({{a}});
    for (int a = 0; a < static_cast<int>(R.size()); ++a)
        for (int b = 0; b < static_cast<int>(R.size()); ++b) specs.push_back({{a, b}});
    auto elems = [&](const VSpec& s, std::size_t fixed)
    {
        std::vector<Elem> es;
        for (int i : s.seq)
        {
            Elem e = R[static_cast<std::size_t>(i)];
            // fixed-size fields follow the vector's fixed size: truncate/extend with value 0
            for (std::size_t k = 0; k < LS::N; ++k)
                if (LS::kinds[k] == F) e.f[k].resize(fsz(fixed, findex(k)), 0);
            es.push_back(e);
        }
        return es;
    };
    std::vector<Elem> filler = R;
    for (auto& e : filler)
        for (std::size_t k = 0; k < LS::N; ++k)
            if (LS::kinds[k] == F) e.f[k].resize(fsz(fixed_b, findex(k)), 2);
    const std::size_t nv = specs.size();
    // variants of the right-hand side: spare capacity, arena, dirty memory, junk
    struct Var
    {
        int spare, arena, junk;
        bool dirty;
        const char* name;
        bool popped = false;
    };
    const Var vars[] = {{0, 0, JUNK_ZERO, false, "tight,same-arena,fresh,zero"},
                        {1, 1, JUNK_DISTINCT, false, "spare,other-arena,fresh,junk"},
                        {1, 0, JUNK_DISTINCT, true, "spare,same-arena,used,junk"},
                        {0, 1, JUNK_PATTERN, true, "tight,other-arena,used,pattern"},
                        {0, 0, JUNK_DISTINCT, false, "same-arena,fresh,junk,last element popped", true}};
    std::vector<typename SA::Vec> lhs;
    for (auto& s : specs) lhs.push_back(SA::build(elems(s, fixed_a), filler, fixed_a, 0, 0, JUNK_ZERO, false));
    S.vectors_built += static_cast<long>(nv);
    std::vector<std::vector<int>> vlt(nv, std::vector<int>(nv, -1));
    auto seq_eq = [&](const VSpec& a, const VSpec& b)
    {
        auto ea = elems(a, fixed_a), eb = elems(b, fixed_b);
        if (ea.size() != eb.size()) return false;
        for (std::size_t i = 0; i < ea.size(); ++i)
            if (!model_eq(ea[i], eb[i])) return false;
        return true;
    };
    auto seq_lt = [&](const VSpec& a, const VSpec& b)
    {
        return std::lexicographical_compare(a.seq.begin(), a.seq.end(), b.seq.begin(), b.seq.end(),
                                            [&](int x, int y) { return elt_lt[static_cast<std::size_t>(x)][static_cast<std::size_t>(y)] == 1; });
    };
    for (auto& var : vars)
    {
        auto run = [&](auto side_tag)
        {
            using SX = typename decltype(side_tag)::type;
            std::vector<typename SX::Vec> rhs;
            for (auto& s : specs) rhs.push_back(SX::build(elems(s, fixed_b), filler, fixed_b, var.spare, var.arena, var.junk, var.dirty, var.popped));
            S.vectors_built += static_cast<long>(nv);
            for (std::size_t i = 0; i < nv; ++i)
                for (std::size_t j = 0; j < nv; ++j)
                {
                    ++S.vector_pairs;
                    const auto& a = lhs[i];
                    const auto& b = rhs[j];
                    const bool meq = seq_eq(specs[i], specs[j]);
                    if (!meq && !specs[i].seq.empty() && !specs[j].seq.empty()) ++S.nontrivial;
                    S.comparisons += 2;
                    const bool eq = a == b, ne = a != b;
                    if (eq != meq)
                        report("C13", "cmp", "vec==:model", "vector == is %d for %s vs %s (rhs %s)", eq, show(elems(specs[i], fixed_a)).c_str(),
                               show(elems(specs[j], fixed_b)).c_str(), var.name);
                    if (ne == eq) report("C13", "cmp", "vec!=:negation", "vector != is not the negation of ==");
                    S.comparisons += 1;
                    if ((b == a) != eq) report("C13", "cmp", "vec==:asymmetric", "a == b differs from b == a (rhs %s)", var.name);
                    if (with_order)
                    {
                        // differential oracle: the generic algorithm over the real references, i.e. the lexicographical
                        // comparison of the element sequences under the element-level <, whatever that is
                        S.comparisons += 2;
                        const bool dlt = std::lexicographical_compare(a.begin(), a.end(), b.begin(), b.end(),
                                                                      [](const auto& x, const auto& y) { return x < y; });
                        if ((a < b) != dlt)
                            report("C14", "cmp", "vec<:element-sequence", "vector < is %d, std::lexicographical_compare over the elements gives %d for %s vs %s (rhs %s)",
                                   int(a < b), int(dlt), show(elems(specs[i], fixed_a)).c_str(), show(elems(specs[j], fixed_b)).c_str(), var.name);
                        if ((a < b) && eq) report("C14", "cmp", "vec<:lt-and-eq", "a < b and a == b");
                        if ((a < b) && (b < a)) report("C14", "cmp", "vec<:symmetric", "a < b and b < a");
                    }
                    if (with_order == 1)
                    {
                        S.comparisons += 5;
                        const bool lt = a < b, le = a <= b, gt = a > b, ge = a >= b, blt = b < a;
                        const bool mlt = seq_lt(specs[i], specs[j]);
                        if (lt != mlt)
                            report("C14", "cmp", "vec<:lexicographic", "vector < is %d, lexicographical comparison under the element < gives %d for %s vs %s (rhs %s)",
                                   lt, mlt, show(elems(specs[i], fixed_a)).c_str(), show(elems(specs[j], fixed_b)).c_str(), var.name);
                        if (gt != blt) report("C14", "cmp", "vec>:not-swapped-<", "a > b differs from b < a (rhs %s)", var.name);
                        if (le != !blt) report("C14", "cmp", "vec<=:not-!(b<a)", "a <= b differs from !(b < a) (rhs %s)", var.name);
                        if (ge != !lt) report("C14", "cmp", "vec>=:not-!(a<b)", "a >= b differs from !(a < b) (rhs %s)", var.name);
                        if (lt && eq) report("C14", "cmp", "vec<:lt-and-eq", "a < b and a == b");
                        if (vlt[i][j] < 0)
                            vlt[i][j] = lt;
                        else if (vlt[i][j] != static_cast<int>(lt))
                            report("C14", "cmp", "vec<:environment", "vector < depends on capacity/arena/memory history (rhs %s)", var.name);
                    }
                    if (!env::viols().empty())
                        flush_viols(std::string("vectors ") + show(elems(specs[i], fixed_a)) + " vs " + show(elems(specs[j], fixed_b)) + " rhs " + var.name);
                }
        };
        struct TagA
        {
            using type = SA;
        };
        struct TagB
        {
            using type = SB;
        };
        run(TagA{});
        run(TagB{});
    }
    if (with_order == 1)
    {
        for (std::size_t i = 0; i < nv; ++i)
        {
            if (vlt[i][i] == 1) report("C14", "cmp", "vec<:reflexive", "v < v");
            for (std::size_t j = 0; j < nv; ++j)
            {
                if (vlt[i][j] == 1 && vlt[j][i] == 1) report("C14", "cmp", "vec<:symmetric", "a < b and b < a");
                for (std::size_t k = 0; k < nv; ++k)
                {
                    ++S.vector_triples;
                    if (vlt[i][j] == 1 && vlt[j][k] == 1 && vlt[i][k] != 1)
                        report("C14", "cmp", std::string("vec<:intransitive@") + compare_path(), "a < b, b < c, not a < c for %s %s %s", show(elems(specs[i], fixed_a)).c_str(),
                               show(elems(specs[j], fixed_a)).c_str(), show(elems(specs[k], fixed_a)).c_str());
                }
            }
        }
        flush_viols("vector order axioms");
    }
}

static std::string jesc(const std::string& s)
{
    std::string o;
    for (char c : s)
    {
        if (c == '"' || c == '\\') o += '\\';
        o += static_cast<unsigned char>(c) < 0x20 ? ' ' : c;
    }
    return o;
}

int main(int argc, char** argv)
{
    std::string out;
    int maxlen = 2;
    for (int i = 1; i < argc; ++i)
    {
        std::string a = argv[i];
        if (a == "--out") out = argv[++i];
        else if (a == "--maxlen") maxlen = std::atoi(argv[++i]);
    }
    __asan_set_error_report_callback(asan_cb);
    const auto t0 = std::chrono::steady_clock::now();
    const std::vector<std::size_t> fixed_choices = LS::NF ? std::vector<std::size_t>{1, 2} : std::vector<std::size_t>{0};
    for (auto fixed : fixed_choices)
    {
        auto E = all_elements(fixed, maxlen);
        if (S.samples.size() < 3 && E.size() > 3) S.samples.push_back("element pair " + to_string(E[1]) + " vs " + to_string(E[E.size() - 2]));
        std::vector<std::vector<int>> lt, lt2;
        element_level<SideA, SideB>(E, fixed, lt, "A:zero,fresh/B:junk,used", JUNK_ZERO, JUNK_DISTINCT, true);
        element_level<SideA, SideA>(E, fixed, lt2, "A:pattern/A:zero", JUNK_PATTERN, JUNK_ZERO, false);
        if (lt != lt2) env::report("C14", "cmp", "elem<:environment", "element < depends on the memory environment");
        flush_viols("environments");
        // representatives: first, one differing in the first free field, one differing in the last, one of other length
        std::vector<Elem> R;
        auto pick = [&](std::size_t i)
        {
            if (i < E.size()) R.push_back(E[i]);
        };
        pick(0);
        pick(1);
        pick(E.size() - 1);
        pick(E.size() / 2);
        std::vector<std::vector<int>> rlt(R.size(), std::vector<int>(R.size(), 0));
        auto index_of = [&](const Elem& e)
        {
            for (std::size_t i = 0; i < E.size(); ++i)
                if (E[i].f == e.f) return i;
            return std::size_t{0};
        };
        for (std::size_t i = 0; i < R.size(); ++i)
            for (std::size_t j = 0; j < R.size(); ++j) rlt[i][j] = lt[index_of(R[i])][index_of(R[j])];
        vector_level<SideA, SideB>(R, rlt, fixed, fixed, 1);
        if (S.samples.size() < 4) S.samples.push_back("vector pair [" + to_string(R[0]) + to_string(R[1]) + "] vs [" + to_string(R[0]) + "]");
    }
    if (LS::NF)
    {
        // operands with different fixed sizes: blocks of the same length can hold a different number of elements
        // (sizes 1 and 2, 1 and 3) or the same number of elements with different field sizes (1,2 against 2,1)
        std::vector<std::pair<std::size_t, std::size_t>> fixed_pairs{{1, 2}, {2, 1}, {1, 3}};
        if (LS::NF > 1) fixed_pairs.push_back({12, 21});
        for (auto [fa, fb] : fixed_pairs)
        {
            auto E = all_elements(fa, maxlen);
            std::vector<Elem> R{E[0], E[1], E[E.size() - 1], E[E.size() / 2]};
            std::vector<std::vector<int>> rlt(R.size(), std::vector<int>(R.size(), 0));
            vector_level<SideA, SideB>(R, rlt, fa, fb, 2);
            element_cross<SideA, SideB>(fa, fb, maxlen);
            element_cross<SideA, SideA>(fa, fb, maxlen);
        }
    }
    const double wall = std::chrono::duration<double>(std::chrono::steady_clock::now() - t0).count();
    std::ostringstream js;
    js << "{\"list\": \"" << HX_STR(CFG_LIST) << "\", \"comparisons\": " << S.comparisons << ", \"element_pairs\": " << S.element_pairs
       << ", \"element_triples\": " << S.element_triples << ", \"vector_pairs\": " << S.vector_pairs << ", \"vector_triples\": " << S.vector_triples
       << ", \"vectors_built\": " << S.vectors_built << ", \"nontrivial\": " << S.nontrivial << ", \"wall_s\": " << wall << ",\n \"samples\": [";
    for (size_t i = 0; i < S.samples.size(); ++i) js << (i ? ", " : "") << "\"" << jesc(S.samples[i]) << "\"";
    js << "],\n \"violations\": [";
    bool first = true;
    for (auto& kv : g_found)
    {
        js << (first ? "\n" : ",\n") << "  {\"props\": \"" << kv.second.props << "\", \"monitor\": \"" << kv.second.monitor << "\", \"discr\": \""
           << jesc(kv.second.discr) << "\", \"msg\": \"" << jesc(kv.second.msg) << "\", \"count\": " << kv.second.count << "}";
        first = false;
    }
    js << "\n ]}\n";
    if (out.empty())
        std::fputs(js.str().c_str(), stdout);
    else
    {
        std::ofstream o(out);
        o << js.str();
    }
    return g_found.empty() ? 0 : 1;
}
