// Probe engine (C20): one cell = one documented operation instantiated for one configuration
// (parameter list x allocator kind). Compiled with -fsyntax-only; -DPROBE_ONLY=<n> selects a single cell,
// otherwise every required cell of the configuration is instantiated.
#include "lists.hpp"

#include <algorithm>
#include <list>

using namespace hx;

#ifndef PROBE_ONLY
#define PROBE_ONLY -1
#endif
#define CELL(n, required, name, ...)                     \
    static void cell_##n() { __VA_ARGS__ }               \
    static constexpr bool need_##n = (required);         \
    static constexpr const char* name_##n = name;

// everything lives in a class template so that `if constexpr` really discards what does not apply
template <class LS, class TR>
struct Probe
{
using Alloc = Ledger<std::byte, TR>;
using Vec = typename LS::template Vec<cntgs::Options<cntgs::Allocator<Alloc>>>;
using Vec2 = typename LS::template Vec<cntgs::Options<cntgs::Allocator<Ledger<std::byte, A_T101>>>>;  // other allocator type
using El = typename Vec::value_type;
using VA = typename Vec::allocator_type;
static constexpr bool CP = LS::ALL_COPYABLE;
static constexpr std::size_t N = LS::N;

static Vec make(std::size_t n = 2, int arena = 0)
{
    std::array<std::size_t, LS::NF> fs{};
    for (auto& f : fs) f = 1;
    VA al{arena};
    if constexpr (LS::NF > 0 && LS::NV > 0)
        return Vec(n, 64, fs, al);
    else if constexpr (LS::NF > 0)
        return Vec(n, fs, al);
    else if constexpr (LS::NV > 0)
        return Vec(n, 64, al);
    else
        return Vec(n, al);
}
static Elem an_elem(int id)
{
    return LS::make_elem(id, std::vector<std::size_t>(LS::NV, 1), std::vector<std::size_t>(LS::NF, 1));
}
template <std::size_t... I>
static long read_all(const typename Vec::const_reference& r, std::index_sequence<I...>)
{
    return (static_cast<long>(sizeof(decltype(cntgs::get<I>(r)))) + ... + 0);
}

// ---- constructors
CELL(0, true, "default constructor", Vec v; (void)v.size();)
CELL(1, true, "sized constructor without allocator",
     std::array<std::size_t, LS::NF> fs{};
     if constexpr (LS::NF > 0 && LS::NV > 0) { Vec v(2, 64, fs); (void)v; }
     else if constexpr (LS::NF > 0) { Vec v(2, fs); (void)v; }
     else if constexpr (LS::NV > 0) { Vec v(2, 64); (void)v; }
     else { Vec v(2); (void)v; })
CELL(2, true, "allocator-extended sized constructor", Vec v = make(2, 1); (void)v;)
CELL(3, CP, "copy constructor", Vec a = make(); Vec b{std::as_const(a)}; (void)b;)
CELL(4, true, "move constructor", Vec a = make(); Vec b{std::move(a)}; (void)b;)
CELL(5, CP, "copy assignment", Vec a = make(); Vec b = make(); b = std::as_const(a);)
CELL(6, true, "move assignment", Vec a = make(); Vec b = make(); b = std::move(a);)
// ---- modifiers
CELL(7, true, "emplace_back (rvalue sources)", Vec a = make(); LS::emplace(a, an_elem(0));)
CELL(8, true, "pop_back", Vec a = make(); a.pop_back();)
CELL(9, true, "erase(position)", Vec a = make(); auto it = a.erase(a.begin()); (void)it;)
CELL(10, true, "erase(first, last)", Vec a = make(); auto it = a.erase(a.begin(), a.end()); (void)it; typename Vec::const_iterator c = a.cbegin(); a.erase(c, c);)
CELL(11, true, "clear", Vec a = make(); a.clear();)
CELL(12, true, "reserve", Vec a = make(); if constexpr (LS::NV > 0) a.reserve(4, 128); else a.reserve(4);)
CELL(13, true, "swap(vector, vector)", Vec a = make(); Vec b = make(); using std::swap; swap(a, b);)
// ---- queries / access
CELL(14, true, "size/capacity/empty/data/memory_consumption/get_allocator/get_fixed_size",
     Vec a = make(); const Vec& c = a;
     (void)(c.size() + c.capacity() + c.empty() + c.memory_consumption()); (void)c.data(); (void)c.data_begin(); (void)c.data_end();
     (void)a.data(); (void)a.data_begin(); (void)a.data_end(); (void)c.get_allocator();
     if constexpr (LS::NF > 0) (void)c.template get_fixed_size<0>();)
CELL(15, true, "operator[] / front / back (const and mutable)",
     Vec a = make(); const Vec& c = a; (void)a[0]; (void)c[0]; (void)a.front(); (void)c.front(); (void)a.back(); (void)c.back();)
CELL(16, true, "iteration",
     Vec a = make(); const Vec& c = a; long s = 0;
     for (auto&& r : a) { (void)r; ++s; } for (auto&& r : c) { (void)r; ++s; }
     for (auto it = c.cbegin(); it != c.cend(); ++it) ++s;
     auto b = a.begin(); auto e = a.end(); s += e - b; b += 1; b -= 1; ++b; --b; b++; b--; (void)(b + 1); (void)(e - 1); (void)b[0];
     (void)(b < e); (void)(b <= e); (void)(b > e); (void)(b >= e); (void)(b == e); (void)(b != e); (void)b->data_begin();
     typename Vec::const_iterator ci = b; ci = b; (void)ci; (void)std::distance(a.begin(), a.end()); (void)std::next(a.begin()); (void)s;)
CELL(17, true, "iterator default construction (random access iterators are default constructible)",
     typename Vec::iterator it{}; typename Vec::const_iterator cit{}; (void)it; (void)cit;)
CELL(18, true, "get<I> on reference, const_reference and element",
     Vec a = make(); const Vec& c = a; LS::emplace(a, an_elem(0)); (void)read_all(c[0], std::make_index_sequence<N>{});
     auto r = a[0]; (void)cntgs::get<0>(r); (void)cntgs::get<N - 1>(r); (void)cntgs::get<0>(c[0]);
     El e{a[0]}; (void)cntgs::get<0>(e); (void)cntgs::get<0>(std::as_const(e)); (void)cntgs::get<N - 1>(std::move(e));)
CELL(19, N == 2 || N == 3, "structured bindings of reference and const_reference",
     Vec a = make(); const Vec& c = a; LS::emplace(a, an_elem(0));
     if constexpr (N == 2) { auto&& [x, y] = a[0]; (void)x; (void)y; auto&& [p, q] = c[0]; (void)p; (void)q; }
     else if constexpr (N == 3) { auto&& [x, y, z] = a[0]; (void)x; (void)y; (void)z; auto&& [p, q, w] = c[0]; (void)p; (void)q; (void)w; })
CELL(20, N == 2 || N == 3, "structured bindings of an element",
     Vec a = make(); LS::emplace(a, an_elem(0)); El e{a[0]};
     if constexpr (N == 2) { auto&& [x, y] = e; (void)x; (void)y; }
     else if constexpr (N == 3) { auto&& [x, y, z] = e; (void)x; (void)y; (void)z; })
// ---- comparisons
CELL(21, true, "vector comparisons (same and different allocator type)",
     Vec a = make(); Vec b = make(); (void)(a == b); (void)(a != b); (void)(a < b); (void)(a <= b); (void)(a > b); (void)(a >= b);
     Vec2 o; (void)(a == o); (void)(a != o); (void)(a < o); (void)(a <= o); (void)(a > o); (void)(a >= o); (void)(o == a); (void)(o < a);)
CELL(22, true, "reference / const_reference comparisons",
     Vec a = make(); const Vec& c = a; auto r = a[0]; auto cr = c[0];
     (void)(r == r); (void)(r != cr); (void)(cr < r); (void)(cr <= cr); (void)(r > cr); (void)(r >= r); (void)(cr == r);)
CELL(23, true, "element comparisons with elements and references",
     Vec a = make(); const Vec& c = a; El e{a[0]}; El f{a[0]}; auto r = a[0]; auto cr = c[0];
     (void)(e == f); (void)(e != f); (void)(e < f); (void)(e <= f); (void)(e > f); (void)(e >= f);
     (void)(e == r); (void)(e != cr); (void)(e < r); (void)(e <= cr); (void)(e > r); (void)(e >= cr);
     (void)(r == e); (void)(cr != e); (void)(r < e); (void)(cr <= e); (void)(r > e); (void)(cr >= e);)
// ---- references
CELL(24, CP, "reference = reference / const_reference (copy)", Vec a = make(); const Vec& c = a; auto r = a[0]; auto s = a[1]; r = s; r = c[1];)
CELL(25, true, "reference = rvalue reference (move)", Vec a = make(); auto r = a[0]; r = a[1]; auto s = a[1]; r = std::move(s);)
CELL(26, true, "swap(reference, reference) and iter_swap", Vec a = make(); using std::swap; swap(a[0], a[1]); std::iter_swap(a.begin(), a.begin() + 1);)
CELL(27, true, "std::rotate / std::reverse / std::swap_ranges over iterators",
     Vec a = make(3); std::rotate(a.begin(), a.begin() + 1, a.end()); std::reverse(a.begin(), a.end()); std::swap_ranges(a.begin(), a.begin() + 1, a.begin() + 1);)
// ---- elements
CELL(28, CP, "element from reference / const_reference (with and without allocator)",
     Vec a = make(); const Vec& c = a; auto r = a[0]; El e1{r}; El e2{c[0]}; El e3{r, VA{1}}; El e4{c[0], VA{1}}; auto cr = c[0]; El e5{cr}; (void)e1; (void)e2; (void)e3; (void)e4; (void)e5;)
CELL(29, true, "element from rvalue reference (with and without allocator)", Vec a = make(); El e1{a[0]}; El e2{a[1], VA{1}}; (void)e1; (void)e2;)
CELL(30, CP, "element copy construction (plain and allocator-extended) and copy assignment",
     Vec a = make(); El e{a[0]}; El f{std::as_const(e)}; El g{std::as_const(e), VA{1}}; f = std::as_const(g); (void)f;)
CELL(31, true, "element move construction (plain and allocator-extended) and move assignment",
     Vec a = make(); El e{a[0]}; El f{std::move(e)}; El g{std::move(f), VA{1}}; El h{a[1]}; h = std::move(g); (void)h;)
CELL(32, true, "swap(element, element)", Vec a = make(); El e{a[0]}; El f{a[1]}; using std::swap; swap(e, f);)
CELL(33, CP, "element = reference / const_reference", Vec a = make(); const Vec& c = a; El e{a[0]}; auto r = a[1]; e = r; e = c[1];)
CELL(34, true, "element = rvalue reference", Vec a = make(); El e{a[0]}; e = a[1];)
CELL(35, CP, "reference = const element&", Vec a = make(); El e{a[0]}; auto r = a[1]; r = std::as_const(e);)
CELL(36, true, "reference = rvalue element", Vec a = make(); El e{a[0]}; auto r = a[1]; r = std::move(e);)
CELL(37, true, "reference / const_reference constructed from an element", Vec a = make(); El e{a[0]}; typename Vec::reference r{e}; typename Vec::const_reference cr{std::as_const(e)}; typename Vec::const_reference cr2{r}; (void)cr; (void)cr2;)
template <std::size_t... I>
static void emplace_lvalues(Vec& v, const Elem& e, std::index_sequence<I...>)
{
    auto args = std::tuple<decltype(LS::template make_arg<I>(e))...>{LS::template make_arg<I>(e)...};
    v.emplace_back(std::get<I>(args)...);             // every argument an lvalue
    v.emplace_back(std::as_const(std::get<I>(args))...);  // ... and a const lvalue
}
template <std::size_t I, bool Move, class Tuple>
static decltype(auto) iterator_arg(Tuple& args)
{
    if constexpr (LS::kinds[I] == F)
    {
        if constexpr (Move)
            return std::make_move_iterator(std::get<I>(args).begin());
        else
            return std::get<I>(args).begin();
    }
    else
        return std::move(std::get<I>(args));
}
template <bool Move, std::size_t... I>
static void emplace_iterators(Vec& v, const Elem& e, std::index_sequence<I...>)
{
    auto args = std::tuple<decltype(LS::template make_arg<I>(e))...>{LS::template make_arg<I>(e)...};
    v.emplace_back(iterator_arg<I, Move>(args)...);
}
CELL(38, CP, "emplace_back with lvalue and const lvalue arguments", Vec a = make(); emplace_lvalues(a, an_elem(0), std::make_index_sequence<N>{});)
CELL(39, CP && LS::NF > 0, "emplace_back with iterators for FixedSize parameters", Vec a = make(); emplace_iterators<false>(a, an_elem(0), std::make_index_sequence<N>{});)
CELL(40, LS::NF > 0, "emplace_back with move_iterators for FixedSize parameters", Vec a = make(); emplace_iterators<true>(a, an_elem(0), std::make_index_sequence<N>{});)
CELL(41, N == 2 || N == 3, "structured bindings of a const element / through a const reference to an element",
     Vec a = make(); LS::emplace(a, an_elem(0)); const El ce{a[0]}; El e{a[0]};
     if constexpr (N == 2) { auto& [x, y] = ce; (void)x; (void)y; const auto& [p, q] = e; (void)p; (void)q; auto&& [r, t] = std::as_const(e); (void)r; (void)t; }
     else if constexpr (N == 3) { auto& [x, y, z] = ce; (void)x; (void)y; (void)z; const auto& [p, q, w] = e; (void)p; (void)q; (void)w;
                                  auto&& [r, t, u] = std::as_const(e); (void)r; (void)t; (void)u; })
CELL(42, N == 2 || N == 3, "structured bindings of an rvalue element",
     Vec a = make(); LS::emplace(a, an_elem(0)); El e{a[0]};
     if constexpr (N == 2) { auto&& [x, y] = std::move(e); (void)x; (void)y; }
     else if constexpr (N == 3) { auto&& [x, y, z] = std::move(e); (void)x; (void)y; (void)z; })
CELL(43, CP && (N == 2 || N == 3), "structured bindings of a copy of an element (auto [a, b] = element)",
     Vec a = make(); LS::emplace(a, an_elem(0)); El e{a[0]};
     if constexpr (N == 2) { auto [x, y] = e; (void)x; (void)y; }
     else if constexpr (N == 3) { auto [x, y, z] = e; (void)x; (void)y; (void)z; })
CELL(44, N == 2 || N == 3, "structured bindings of references: auto [a, b] = v[0], const auto& [a, b] = v[0]",
     Vec a = make(); const Vec& c = a; LS::emplace(a, an_elem(0));
     if constexpr (N == 2) { auto [x, y] = a[0]; (void)x; (void)y; const auto& [p, q] = a[0]; (void)p; (void)q; auto [r, t] = c[0]; (void)r; (void)t; }
     else if constexpr (N == 3) { auto [x, y, z] = a[0]; (void)x; (void)y; (void)z; const auto& [p, q, w] = a[0]; (void)p; (void)q; (void)w;
                                  auto [r, t, u] = c[0]; (void)r; (void)t; (void)u; })
static constexpr int NCELLS = 45;

#define RUN(n)                                                   \
    if constexpr ((PROBE_ONLY == -1 || PROBE_ONLY == n) && need_##n) cell_##n();

static void all_cells()
{
    RUN(0) RUN(1) RUN(2) RUN(3) RUN(4) RUN(5) RUN(6) RUN(7) RUN(8) RUN(9) RUN(10) RUN(11) RUN(12) RUN(13) RUN(14) RUN(15) RUN(16) RUN(17) RUN(18)
    RUN(19) RUN(20) RUN(21) RUN(22) RUN(23) RUN(24) RUN(25) RUN(26) RUN(27) RUN(28) RUN(29) RUN(30) RUN(31) RUN(32) RUN(33) RUN(34) RUN(35) RUN(36)
    RUN(37) RUN(38) RUN(39) RUN(40) RUN(41) RUN(42) RUN(43) RUN(44)
}
};  // struct Probe

using ThisProbe = Probe<HX_CAT(L_, CFG_LIST), HX_CAT(A_, CFG_ALLOC)>;
void instantiate() { ThisProbe::all_cells(); }

#ifdef PROBE_LIST_CELLS
#include <cstdio>
int main()
{
#define SHOW(n) std::printf("%d\t%d\t%s\n", n, ThisProbe::need_##n ? 1 : 0, ThisProbe::name_##n);
    SHOW(0) SHOW(1) SHOW(2) SHOW(3) SHOW(4) SHOW(5) SHOW(6) SHOW(7) SHOW(8) SHOW(9) SHOW(10) SHOW(11) SHOW(12) SHOW(13) SHOW(14) SHOW(15) SHOW(16)
    SHOW(17) SHOW(18) SHOW(19) SHOW(20) SHOW(21) SHOW(22) SHOW(23) SHOW(24) SHOW(25) SHOW(26) SHOW(27) SHOW(28) SHOW(29) SHOW(30) SHOW(31) SHOW(32)
    SHOW(33) SHOW(34) SHOW(35) SHOW(36) SHOW(37) SHOW(38) SHOW(39) SHOW(40) SHOW(41) SHOW(42) SHOW(43) SHOW(44)
    return 0;
}
#endif
