// Generic harness for one parameter list: descriptors, reference model elements, argument construction,
// field reading and address extents. No per-list code apart from the `using` lines in lists.hpp.
#pragma once
#include "env/ledger.hpp"
#include "env/tracked.hpp"

#include <cntgs/contiguous.hpp>

#include <array>
#include <string>
#include <tuple>
#include <utility>
#include <vector>

namespace hx
{
using namespace env;

enum Kind
{
    P,
    F,
    V
};

template <Kind K, class T, std::size_t A = 0>
struct D
{
    static constexpr Kind kind = K;
    using type = T;
    static constexpr std::size_t align_as = A;
    using inner = std::conditional_t<A == 0, T, cntgs::AlignAs<T, (A == 0 ? 1 : A)>>;
    using param = std::conditional_t<K == P, inner, std::conditional_t<K == F, cntgs::FixedSize<inner>, cntgs::VaryingSize<inner>>>;
};

struct Elem
{
    int id = 0;
    std::vector<std::vector<int>> f;  // one int list per parameter
    bool operator==(const Elem& o) const { return f == o.f; }
    bool operator!=(const Elem& o) const { return !(f == o.f); }
};

inline std::string to_string(const Elem& e)
{
    std::string s = "(";
    for (size_t i = 0; i < e.f.size(); ++i)
    {
        if (i) s += "|";
        for (size_t j = 0; j < e.f[i].size(); ++j)
        {
            if (j) s += ",";
            s += std::to_string(e.f[i][j]);
        }
    }
    return s + ")";
}

struct Extent
{
    uintptr_t addr;
    size_t count;
    size_t bytes;
};

template <class... Ds>
struct List
{
    static constexpr std::size_t N = sizeof...(Ds);
    using Tuple = std::tuple<Ds...>;
    template <std::size_t I>
    using At = std::tuple_element_t<I, Tuple>;
    static constexpr std::array<Kind, N> kinds{Ds::kind...};
    static constexpr std::array<std::size_t, N> sizes{sizeof(typename Ds::type)...};
    static constexpr std::array<std::size_t, N> aligns{(Ds::align_as ? Ds::align_as : std::size_t{1})...};
    static constexpr std::array<bool, N> has_align{(Ds::align_as != 0)...};
    static constexpr std::array<bool, N> tracked{IS_TRACKED<typename Ds::type>...};
    // value types whose move operations leave the value MOVED in the source
    static constexpr std::array<bool, N> marks_moved{(IS_TRACKED<typename Ds::type> || std::is_same_v<typename Ds::type, Mva>)...};
    // values whose copy has to go through a (counted) copy constructor
    static constexpr std::array<bool, N> copy_counted{(IS_TRACKED<typename Ds::type> || std::is_same_v<typename Ds::type, Cpy>)...};
    static constexpr std::size_t NF = (std::size_t{} + ... + (Ds::kind == F));
    static constexpr std::size_t NV = (std::size_t{} + ... + (Ds::kind == V));
    static constexpr bool HAS_TRACKED = (IS_TRACKED<typename Ds::type> || ...);
    static constexpr bool ALL_COPYABLE = (std::is_copy_constructible_v<typename Ds::type> && ...);
    static constexpr bool ALL_TRIVIAL = (std::is_trivially_copyable_v<typename Ds::type> && ...);
    static constexpr bool HAS_ALIGN = ((Ds::align_as != 0) || ...);
    // value types whose object representation contains absolute addresses (std::string points into itself)
    static constexpr bool HAS_ADDRESS_BYTES = ((std::is_same_v<typename Ds::type, std::string> || std::is_same_v<typename Ds::type, Ptr>) || ...);
    // per parameter: model value -> the value the type can actually hold (bool, empty class, pointer table index)
    using NormFn = int (*)(int);
    static constexpr std::array<NormFn, N> norms{&VT<typename Ds::type>::norm...};

    static constexpr bool is_count(std::size_t i) { return i + 1 < N && kinds[i + 1] == V; }
    static constexpr std::size_t fixed_index(std::size_t i)
    {
        std::size_t n = 0;
        for (std::size_t k = 0; k < i; ++k) n += kinds[k] == F;
        return n;
    }
    static constexpr std::size_t vary_index(std::size_t i)
    {
        std::size_t n = 0;
        for (std::size_t k = 0; k < i; ++k) n += kinds[k] == V;
        return n;
    }
    static constexpr std::size_t amax()
    {
        std::size_t a = 1;
        for (auto x : aligns) a = x > a ? x : a;
        return a;
    }
    static constexpr std::size_t AMAX = amax();
    static constexpr std::size_t payload_unit()
    {
        std::size_t a = 1;
        for (std::size_t k = 0; k < N; ++k)
            if (kinds[k] == V && sizes[k] > a) a = sizes[k];
        return a;
    }
    static constexpr std::size_t UNIT = payload_unit();

    template <class Options>
    using Vec = cntgs::BasicContiguousVector<Options, typename Ds::param...>;

    static int value_for(int id, std::size_t I, std::size_t pos)
    {
        return 1 + static_cast<int>((static_cast<std::size_t>(id) * 37u + I * 7u + pos * 3u) % 120u);
    }

    // counts: one per VaryingSize parameter; fixed: one per FixedSize parameter
    static Elem make_elem(int id, const std::vector<std::size_t>& counts, const std::vector<std::size_t>& fixed)
    {
        Elem e;
        e.id = id;
        e.f.resize(N);
        for (std::size_t i = 0; i < N; ++i)
        {
            if (kinds[i] == P)
            {
                if (is_count(i))
                    e.f[i].push_back(static_cast<int>(counts[vary_index(i + 1)]));
                else
                    e.f[i].push_back(norms[i](value_for(id, i, 0)));
            }
            else
            {
                const std::size_t n = kinds[i] == F ? fixed[fixed_index(i)] : counts[vary_index(i)];
                for (std::size_t p = 0; p < n; ++p) e.f[i].push_back(norms[i](value_for(id, i, p)));
            }
        }
        return e;
    }

    static std::size_t payload_bytes(const std::vector<std::size_t>& counts)
    {
        std::size_t b = 0;
        for (std::size_t i = 0; i < N; ++i)
            if (kinds[i] == V) b += counts[vary_index(i)] * sizes[i];
        return b;
    }
    static std::size_t payload_bytes(const Elem& e)
    {
        std::size_t b = 0;
        for (std::size_t i = 0; i < N; ++i)
            if (kinds[i] == V) b += e.f[i].size() * sizes[i];
        return b;
    }

    template <std::size_t I>
    static auto make_arg(const Elem& e)
    {
        using Di = At<I>;
        using T = typename Di::type;
        if constexpr (Di::kind == P)
        {
            if constexpr (is_count(I))
                return static_cast<T>(e.f[I][0]);  // the span length itself
            else
                return VT<T>::make(e.f[I][0]);
        }
        else
        {
            std::vector<T> r;
            r.reserve(e.f[I].size());
            for (int x : e.f[I]) r.push_back(VT<T>::make(x));
            return r;
        }
    }

    template <class Vec, std::size_t... I>
    static void emplace_impl(Vec& v, const Elem& e, std::index_sequence<I...>)
    {
        auto args = std::tuple<decltype(make_arg<I>(e))...>{make_arg<I>(e)...};
        L().in_lib = true;
        v.emplace_back(std::move(std::get<I>(args))...);
        L().in_lib = false;
    }
    template <class Vec>
    static void emplace(Vec& v, const Elem& e)
    {
        emplace_impl(v, e, std::make_index_sequence<N>{});
    }

    // emplace_back with the fields of an existing element (of the same vector) as arguments
    template <class Vec, class Ref, std::size_t... I>
    static void emplace_from_ref_impl(Vec& v, const Ref& r, std::index_sequence<I...>)
    {
        L().in_lib = true;
        v.emplace_back(cntgs::get<I>(r)...);
        L().in_lib = false;
    }
    template <class Vec, class Ref>
    static void emplace_from_ref(Vec& v, const Ref& r)
    {
        emplace_from_ref_impl(v, r, std::make_index_sequence<N>{});
    }

    template <std::size_t I, class Ref>
    static void read_field(const Ref& r, std::vector<int>& out)
    {
        using Di = At<I>;
        using T = typename Di::type;
        if constexpr (Di::kind == P)
        {
            if constexpr (is_count(I))
                out.push_back(static_cast<int>(cntgs::get<I>(r)));
            else
                out.push_back(VT<T>::read(cntgs::get<I>(r)));
        }
        else
        {
            auto s = cntgs::get<I>(r);
            if (s.size() > 4096)
            {
                out.push_back(-9);  // absurd span length: do not iterate
                return;
            }
            for (auto& x : s) out.push_back(VT<T>::read(x));
        }
    }
    template <class Ref, std::size_t... I>
    static Elem read_impl(const Ref& r, std::index_sequence<I...>)
    {
        Elem e;
        e.f.resize(N);
        (read_field<I>(r, e.f[I]), ...);
        return e;
    }
    template <class Ref>
    static Elem read(const Ref& r)
    {
        return read_impl(r, std::make_index_sequence<N>{});
    }

    template <std::size_t I, class Ref>
    static Extent extent(const Ref& r)
    {
        using Di = At<I>;
        if constexpr (Di::kind == P)
        {
            return {reinterpret_cast<uintptr_t>(std::addressof(cntgs::get<I>(r))), 1, sizes[I]};
        }
        else
        {
            auto s = cntgs::get<I>(r);
            return {reinterpret_cast<uintptr_t>(s.data()), s.size(), s.size() * sizes[I]};
        }
    }
    template <class Ref, std::size_t... I>
    static std::array<Extent, N> extents_impl(const Ref& r, std::index_sequence<I...>)
    {
        return {extent<I>(r)...};
    }
    template <class Ref>
    static std::array<Extent, N> extents(const Ref& r)
    {
        return extents_impl(r, std::make_index_sequence<N>{});
    }

    // write new values through a mutable reference/element: every non-count object gets value+delta
    template <std::size_t I, class Ref>
    static void mutate_field(Ref& r, Elem& m, int delta)
    {
        using Di = At<I>;
        using T = typename Di::type;
        if constexpr (Di::kind == P)
        {
            if (!is_count(I))
            {
                m.f[I][0] = VT<T>::norm(1 + (m.f[I][0] + delta) % 120);
                cntgs::get<I>(r) = VT<T>::make(m.f[I][0]);
            }
        }
        else
        {
            auto s = cntgs::get<I>(r);
            std::size_t k = 0;
            for (auto& x : s)
            {
                m.f[I][k] = VT<T>::norm(1 + (m.f[I][k] + delta) % 120);
                x = VT<T>::make(m.f[I][k]);
                ++k;
            }
        }
    }
    template <class Ref, std::size_t... I>
    static void mutate_impl(Ref& r, Elem& m, int delta, std::index_sequence<I...>)
    {
        (mutate_field<I>(r, m, delta), ...);
    }
    template <class Ref>
    static void mutate(Ref&& r, Elem& m, int delta)
    {
        mutate_impl(r, m, delta, std::make_index_sequence<N>{});  // r is an lvalue here: prvalue references bind too
    }

    // model of "fields moved out": tracked objects become MOVED, trivial ones keep their value
    static void mark_moved(Elem& m)
    {
        for (std::size_t i = 0; i < N; ++i)
            if (marks_moved[i])
                for (auto& x : m.f[i]) x = MOVED;
    }
    static std::size_t copy_counted_objects(const Elem& m)
    {
        std::size_t n = 0;
        for (std::size_t i = 0; i < N; ++i)
            if (copy_counted[i]) n += m.f[i].size();
        return n;
    }
    static std::size_t tracked_objects(const Elem& m)
    {
        std::size_t n = 0;
        for (std::size_t i = 0; i < N; ++i)
            if (tracked[i]) n += m.f[i].size();
        return n;
    }
};
}  // namespace hx
