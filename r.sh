#!/bin/bash
# scratch run helper: r.sh LIST ALLOC args...
export ASAN_OPTIONS=detect_leaks=0:halt_on_error=0:symbolize=0:allocator_may_return_null=1
L=$1; A=$2; shift; shift
/verif/build/eng_${L}_${A} "$@" --out /verif/out/r_${L}_${A}.json 2>/dev/null; echo "exit=$?"
python3 -c "
import json,sys;d=json.load(open('/verif/out/r_${L}_${A}.json'));v=d.pop('violations');s=d.pop('samples')
print({k:d[k] for k in ('list','alloc','mode','props','states','transitions','terminal_checks','foreign_pruned','crashes','distinct_observations','depth_completed','fixpoint','deadline_hit','wall_s','internal_msg')})
for x in v: print('  ',x['props'],x['monitor'],x['discr'],'|',x['op'],'|',x['history'],'|',x['msg'],'| n=',x['count'])"
